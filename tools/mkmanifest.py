#!/venv/bin/python
"""Regenerates /verif/MANIFEST.json from the registered checks (vlib/props.py) and the texts below."""
import json
import os
import sys

HERE = os.path.dirname(os.path.dirname(os.path.abspath(__file__)))
sys.path.insert(0, HERE)

TECH = {
    "C01": "online monitor on the recording objective (every invoked point, per deme scope) + history / seed / result scans at every boundary; exact box comparison",
    "C02": "online monitor: exact re-evaluation of every stored individual with a pure copy of the objective at every boundary + sha1 digests of recorded generations re-verified later",
    "C03": "conservation-law monitor at every GSC consultation: tree / level / deme counters vs. the recorder's call log attributed to deme scopes; cutoff budgets",
    "C04": "online monitor: brute-force best over all histories at every boundary, never-worsening sequence, recorder minimum; twin runs for budget prefixes",
    "C05": "trace automaton over GSC consultations (caller read from the frame), run_step / deme metaepoch / init taps: nothing new after first-true, <=1 iteration per deme",
    "C06": "per-deme lifecycle automaton over step / metaepoch / LSC / GSC events with frozen-state digests after deactivation",
    "C07": "structural invariant at every boundary + sprout-mechanism tap comparing returned seeds with parent population snapshots",
    "C08": "active-deme census at every GSC consultation and around every sprouting round vs. the configured level limit",
    "C09": "centroid recomputed from the population vs. reported; sprout tap recomputes true sibling centroids and seed distances (three-valued threshold)",
    "C10": "reference-specification monitor: filters / generators called on synthetic trees and candidate sets, and tapped in real runs",
    "C11": "history joined with the time-stamped call log (each individual carried or newly evaluated) + engine-entry tap comparing the parents handed in with the preceding generation",
    "C12": "history scan: best / sorted fitness vectors non-worsening for elitist engines, constant generation size",
    "C13": "twin monitor: identical seeded calls / runs on (f, maximize) and (-f, minimize) compared exactly",
    "C14": "twin monitor: digests of repeated seeded runs, in-process with scrambled global RNGs and in fresh interpreters with different PYTHONHASHSEED",
    "C15": "reference-model monitor: independent O(n^2) nearest-better clustering + metamorphic re-runs (permutation, translation, scaling, mirroring)",
    "C16": "model-based monitor: wrapper stacks driven by generated call sequences next to a reference model, compared after every call",
    "C17": "direct enumeration of adversarial inputs with an exact rational (fractions.Fraction) oracle",
    "C18": "trace monitor: hibernation flags after every sprouting round vs. the seeds the mechanism returned; frozen sleepers; per-metaepoch progress",
    "C19": "twin monitor: digest / summary / RNG state around pickle_dump at every metaepoch boundary; loaded tree continued under the invariant monitors",
    "C20": "parsed summary()/tree() text vs. tree state at every boundary; accessor purity via call-log length, raw digest and RNG fingerprint; undisturbed twin",
}

NOTE = (
    "held on the executions observed, not proved: covers only configurations / inputs produced by vlib/gen.py and code paths the workload drove "
    "(evidence lists what was seen and the coverage floors); trusted: CPython, numpy, scipy, cma, dill, the vlib monitors and reference models"
)


def main():
    os.environ.setdefault("VERIF_REPO", "/repo")
    from vlib.props import PROPS

    ids = [json.loads(line)["id"] for line in open(os.path.join(HERE, "properties.jsonl"))]
    titles = {json.loads(line)["id"]: json.loads(line)["title"] for line in open(os.path.join(HERE, "properties.jsonl"))}
    checks = []
    for pid in ids:
        if pid not in PROPS:
            continue
        spec = PROPS[pid]
        checks.append(
            {
                "property_id": pid,
                "quick_cmd": f"cd /verif && /venv/bin/python -m vlib.check {pid} --tier quick",
                "thorough_cmd": f"cd /verif && /venv/bin/python -m vlib.check {pid} --tier thorough",
                "evidence_file": f"/verif/evidence/{pid}.json",
                "replay_cmd_template": f"cd /verif && /venv/bin/python -m vlib.check {pid} --replay {{path}}",
                "engine": "vlib",
                "level_claimed": {
                    "category": "exploration",
                    "text": f"{titles[pid]}: runtime monitoring of the real code under a seeded, stratified + random workload "
                    f"(quick {spec.sizes['quick']} cases, thorough {spec.sizes['thorough']}); verdict 'held' only when every coverage floor was observed. "
                    + spec.rule,
                    "design_ref": f"DESIGN.md section 5, {pid}",
                },
                "level_note": NOTE,
                "technique": "runtime monitoring: " + TECH[pid],
            }
        )
    na = [{"property_id": pid, "reason": "check not built yet (work in progress); runtime monitoring is applicable, see DESIGN.md"} for pid in ids if pid not in PROPS]
    m = {
        "version": 1,
        "setup_cmd": "cd /verif && /venv/bin/python -m compileall -q vlib && /venv/bin/python -c \"import sys; sys.path.insert(0,'/verif'); import vlib.props\"",
        "hooks": {
            "guard": "AGH_A2S_PYHMS_VERIF",
            "enable": "no source hooks: every tap is a pass-through wrapper or class-level method tap attached from the harness (vlib/harness.py) at run time; the variable is set for the workers but nothing in /repo reads it",
            "baseline_off_cmd": "cd /repo && /venv/bin/python -m pytest -ra -q -p no:cacheprovider --timeout=900 --continue-on-collection-errors",
            "source_commits": [],
            "add_only": True,
        },
        "engines": [
            {
                "name": "vlib",
                "path": "/verif/vlib",
                "serves_properties": [c["property_id"] for c in checks],
                "kind_free_text": "runtime-monitoring framework: recording objective, pass-through taps, online monitors, reference models, twin runs; 16 worker subprocesses",
            }
        ],
        "checks": checks,
        "notes": "Exit codes: 0 held (KNOWN-FINDING lines possible), 1 violated (VIOLATION lines), 2 inconclusive (coverage floor missed / harness error). Genuine defects repaired in /repo as 'fix:' commits are listed in known_findings.json (status fixed); open findings there are keyed by mechanism.",
        "not_applicable": na,
    }
    with open(os.path.join(HERE, "MANIFEST.json"), "w") as f:
        json.dump(m, f, indent=1)
    print("checks:", [c["property_id"] for c in checks], "not claimed:", [x["property_id"] for x in na])


if __name__ == "__main__":
    main()
