#!/bin/bash
# usage: tools/trymut.sh <patch-file> <tier> <prop> [prop...]
# Applies a seeded change to a scratch worktree of /repo (never to /repo itself), aims the unchanged checks at it
# through VERIF_REPO, prints each check's verdict, removes the worktree.  Evidence goes to a scratch directory.
patch=$(readlink -f "$1"); tier=$2; shift 2
wt=$(mktemp -d /tmp/pyhms-mut-XXXXXX); rmdir $wt
git -C /repo worktree add -q --detach $wt HEAD || exit 3
if ! git -C $wt apply "$patch"; then echo "PATCH DOES NOT APPLY"; git -C /repo worktree remove --force $wt; exit 3; fi
ev=$(mktemp -d /tmp/pyhms-mut-ev-XXXXXX)
cd /verif
for p in "$@"; do
  out=$(VERIF_REPO=$wt VERIF_EVIDENCE_DIR=$ev /venv/bin/python -m vlib.check $p --tier $tier 2>&1); rc=$?
  echo "== $p rc=$rc :: $(echo "$out" | tail -1)"
  echo "$out" | grep -E "^(VIOLATION|KNOWN-FINDING|INCONCLUSIVE|  mechanism)" | cut -c1-420 | head -12
done
git -C /repo worktree remove --force $wt; rm -rf $ev
