#!/venv/bin/python
"""Self-test: apply each of our own seeded defects (string replacement in a scratch worktree of /repo), make sure
the existing 55 tests still pass, aim the unchanged quick check of the target property at it (VERIF_REPO) and
report caught / missed.  Usage: tools/selftest_mutants.py [name-substring ...]   (results: seeded/selftest_results.json)
"""
import json
import os
import subprocess
import sys
import tempfile

M = []


def mut(name, props, file, old, new, note=""):
    M.append({"name": name, "props": props, "file": file, "old": old, "new": new, "note": note})


# ---- C01
mut("c01_gauss_no_repair", ["C01"], "pyhms/demes/single_pop_eas/sea.py",
    '        new_genomes = apply_bounds(new_genomes, population.problem.bounds, method="toroidal")\n        new_population.update_genome(new_genomes)',
    '        new_population.update_genome(new_genomes)')
mut("c01_cma_no_bounds", ["C01"], "pyhms/demes/cma_deme.py", 'opts = {"bounds": [lb, ub], "verbose": -9}', 'opts = {"verbose": -9}')
mut("c01_lhs_scale_upper", ["C01"], "pyhms/demes/lhs_deme.py", "genomes = self.lower_bounds + sample * (self.upper_bounds - self.lower_bounds)", "genomes = self.lower_bounds + sample * self.upper_bounds")
mut("c01_local_no_bounds", ["C01"], "pyhms/demes/local_deme.py", "            bounds=self._bounds,\n", "")
mut("c01_de_clip_only_upper", ["C01"], "pyhms/demes/single_pop_eas/de.py", 'new_genomes = apply_bounds(donor, population.problem.bounds, "reflect")\n        new_fitness = np.where(\n            np.all(new_genomes == population.genomes, axis=1),\n            population.fitnesses,\n            np.nan,\n        )\n        return Population(new_genomes, new_fitness, population.problem)\n\n\nclass BinaryMutationWithDither',
    'new_genomes = np.minimum(donor, population.problem.bounds[:, 1])\n        new_fitness = np.where(\n            np.all(new_genomes == population.genomes, axis=1),\n            population.fitnesses,\n            np.nan,\n        )\n        return Population(new_genomes, new_fitness, population.problem)\n\n\nclass BinaryMutationWithDither')
# ---- C02
mut("c02_update_genome_no_reset", ["C02"], "pyhms/core/population.py", "        self.fitnesses[change_mask] = np.nan\n", "")
mut("c02_shallow_population_copy", ["C02"], "pyhms/core/population.py", "        new_genomes = np.copy(self.genomes)\n", "        new_genomes = self.genomes\n")
mut("c02_de_trial_keeps_parent_fitness", ["C02"], "pyhms/demes/single_pop_eas/de.py", "        new_genomes = np.where(chosen <= probability, mutated_population.genomes, population.genomes)\n        new_fitness = np.where(\n            np.all(new_genomes == population.genomes, axis=1),",
    "        new_genomes = np.where(chosen <= probability, mutated_population.genomes, population.genomes)\n        new_fitness = np.where(\n            np.any(new_genomes == population.genomes, axis=1),")
mut("c02_local_alias_again", ["C02"], "pyhms/demes/local_deme.py", "Individual(np.copy(intermediate_result.x), problem=self._problem)", "Individual(intermediate_result.x, problem=self._problem)")
# ---- C03
mut("c03_count_before_forward_twice", ["C03", "C16"], "pyhms/core/problem.py", "        ret_val = self._inner.evaluate(phenome, *args, **kwargs)\n        self._n_evals += 1\n        return ret_val\n\n    @property\n    def n_evaluations(self) -> int:\n        return self._n_evals\n\n    def __str__(self) -> str:\n        if isinstance(self._inner, Problem):\n            inner_str = f\"Problem({self._inner.__dict__})\"\n        else:\n            inner_str = str(self._inner)\n        return f\"EvalCountingProblem",
    "        self._n_evals += 1\n        ret_val = self._inner.evaluate(phenome, *args, **kwargs)\n        if isinstance(ret_val, float) and ret_val != ret_val:\n            self._n_evals += 1\n        return ret_val\n\n    @property\n    def n_evaluations(self) -> int:\n        return self._n_evals\n\n    def __str__(self) -> str:\n        if isinstance(self._inner, Problem):\n            inner_str = f\"Problem({self._inner.__dict__})\"\n        else:\n            inner_str = str(self._inner)\n        return f\"EvalCountingProblem", note="equivalent for finite objectives: expected MISS (control)")
mut("c03_cutoff_gt", ["C03", "C16"], "pyhms/core/problem.py", "        if self._n_evals >= self._eval_cutoff:", "        if self._n_evals > self._eval_cutoff:")
mut("c03_tree_total_skips_leaves_when_3_levels", ["C03"], "pyhms/tree.py", "        return sum(deme.n_evaluations for _, deme in self.all_demes)", "        return sum(deme.n_evaluations for level, deme in self.all_demes if level < 2)")
mut("c03_local_overwrites_nfev", ["C03"], "pyhms/demes/local_deme.py", "        self._n_evals += result.nfev", "        self._n_evals = result.nit")
mut("c03_minimize_nfev_again", ["C03"], "pyhms/hms.py", "nfev=wrapped_function_problem.n_evaluations if maxfun else hms_tree.n_evaluations", "nfev=hms_tree.n_evaluations")
# ---- C04
mut("c04_deme_best_current_only", ["C04"], "pyhms/demes/abstract_deme.py", "        return max(self.all_individuals) if self.all_individuals else None", "        return max(self.current_population) if self.all_individuals else None")
mut("c04_tree_best_leaves_only", ["C04", "C20"], "pyhms/tree.py", "        return max(deme.best_individual for level in self._levels for deme in level if deme.best_individual)", "        return max(deme.best_individual for level in self._levels[-1:] or self._levels for deme in level if deme.best_individual) if self._levels[-1] else max(d.best_individual for d in self._levels[0])")
# ---- C05
mut("c05_no_gsc_in_de_loop", ["C05"], "pyhms/demes/de_deme.py", "            if tree._gsc(tree):\n                self._history.append(metaepoch_generations)\n                self._active = False\n                self.log(\"DE Deme finished due to GSC\")\n                return\n", "")
mut("c05_sprout_regardless", ["C05"], "pyhms/tree.py", "        if not self._gsc(self):\n            self.run_sprout()", "        self._gsc(self)\n        self.run_sprout()")
mut("c05_counter_after", ["C05"], "pyhms/tree.py", "        self.metaepoch_count += 1\n        self._logger = self._logger.bind(metaepoch=self.metaepoch_count)\n        self.run_metaepoch()", "        self._logger = self._logger.bind(metaepoch=self.metaepoch_count)\n        self.run_metaepoch()\n        self.metaepoch_count += 1", note="MetaepochLimit then sees the old counter inside the metaepoch")
# ---- C06
mut("c06_all_demes_in_step_loop", ["C06"], "pyhms/tree.py", "        for _, deme in reversed(self.active_demes):\n            if \"hibernation\"", "        for _, deme in reversed(self.all_demes):\n            if \"hibernation\"")
mut("c06_lsc_ignored_shade", ["C06"], "pyhms/demes/shade_deme.py", "        if self._lsc(self):\n            self.log(\"SHADE Deme finished due to LSC\")\n            self._active = False", "        if self._lsc(self):\n            self.log(\"SHADE Deme finished due to LSC\")")
# ---- C07
mut("c07_child_id_from_own_children", ["C07"], "pyhms/tree.py", "        id_suffix = len(self._levels[deme.level + 1])", "        id_suffix = len(deme.children)")
mut("c07_seed_not_appended_de", ["C07"], "pyhms/demes/de_deme.py", "            seed_ind = Individual(x0, problem=self._problem)\n            starting_pop.append(seed_ind)", "            seed_ind = Individual(sample_normal(x0, self._sample_std_dev, bounds=self._bounds)(), problem=self._problem)\n            starting_pop.append(seed_ind)")
mut("c07_started_at_off_by_one", ["C07"], "pyhms/tree.py", "                    metaepoch_count=self.metaepoch_count,\n                    sprout_seed=ind,", "                    metaepoch_count=self.metaepoch_count + 1,\n                    sprout_seed=ind,")
# ---- C08
mut("c08_cut_le", ["C08", "C10"], "pyhms/sprout/sprout_filters.py", "ind for ind in candidates[deme].individuals if ind > cutoff_candidate", "ind for ind in candidates[deme].individuals if ind >= cutoff_candidate")
mut("c08_count_all_demes", ["C08", "C10"], "pyhms/sprout/sprout_filters.py", "            currently_active_level_below = len([deme for deme in tree.levels[level + 1] if deme.is_active])", "            currently_active_level_below = len([deme for deme in tree.levels[level + 1] if deme.is_active and not deme._hibernating])", note="hibernating demes are still active: limit exceeded only with hibernation on in >=3 levels")
mut("c08_limit_per_parent", ["C08", "C10"], "pyhms/sprout/sprout_filters.py", "            level_demes = [deme for deme in candidates.keys() if deme.level == level]\n            level_candidates = [candidate for deme in level_demes for candidate in candidates[deme].individuals]",
    "            level_demes = [deme for deme in candidates.keys() if deme.level == level][:1]\n            level_candidates = [candidate for deme in level_demes for candidate in candidates[deme].individuals]")
# ---- C09
mut("c09_distance_to_seed", ["C09"], "pyhms/sprout/sprout_filters.py", "                child_seeds = [ind for ind in child_seeds if self._is_far_enough(ind, sibling.centroid)]", "                child_seeds = [ind for ind in child_seeds if self._is_far_enough(ind, sibling._sprout_seed.genome)]")
mut("c09_ge", ["C09"], "pyhms/sprout/sprout_filters.py", "return nla.norm(ind.genome - centroid, ord=self.norm_ord) > self.min_distance\n", "return nla.norm(ind.genome - centroid, ord=self.norm_ord) >= self.min_distance * 0.5\n")
mut("c09_centroid_memo_again", ["C09", "C20"], "pyhms/demes/abstract_deme.py", "        return compute_centroid(self.current_population)\n\n    @property\n    def history", "        if self._centroid is None:\n            self._centroid = compute_centroid(self.current_population)\n        return self._centroid\n\n    @property\n    def history")
# ---- C10
mut("c10_demelimit_no_reverse", ["C10", "C13"], "pyhms/sprout/sprout_filters.py", "sorted(candidates[deme].individuals, reverse=True)[: self.limit]", "sorted(candidates[deme].individuals)[: self.limit]")
mut("c10_generator_includes_inactive", ["C10"], "pyhms/sprout/sprout_generators.py", "            for level in tree.levels[:-1]\n            for deme in level\n            if deme.is_active\n", "            for level in tree.levels[:-1]\n            for deme in level\n")
mut("c10_best_per_deme_from_history", ["C10", "C07"], "pyhms/sprout/sprout_generators.py", "DemeCandidates(individuals=[deme.best_current_individual], features=DemeFeatures())", "DemeCandidates(individuals=[deme.best_individual], features=DemeFeatures())")
# ---- C11 / C12
mut("c11_restart_from_metaepoch_start_de", ["C11", "C12"], "pyhms/demes/de_deme.py", "            population = offspring\n", "")
mut("c12_elite_from_offspring", ["C12"], "pyhms/demes/single_pop_eas/sea.py", "        top_k_parent_population = parent_population.topk(self.k_elites)", "        top_k_parent_population = offspring_population.topk(self.k_elites)")
mut("c12_de_replace_strict_wrong_side", ["C12"], "pyhms/demes/single_pop_eas/de.py", "            (trial_population.fitnesses >= parent_population.fitnesses)\n            if parent_population.problem.maximize\n            else (trial_population.fitnesses <= parent_population.fitnesses)\n        )\n        return (", "            (trial_population.fitnesses <= parent_population.fitnesses)\n            if parent_population.problem.maximize\n            else (trial_population.fitnesses <= parent_population.fitnesses)\n        )\n        return (")
# ---- C13
mut("c13_topk_ignores_maximize", ["C13", "C12"], "pyhms/core/population.py", "topk_indices = np.argsort(self.fitnesses)[-k:] if self.problem.maximize else np.argsort(self.fitnesses)[:k]", "topk_indices = np.argsort(self.fitnesses)[:k]")
mut("c13_tournament_ignores_maximize", ["C13"], "pyhms/demes/single_pop_eas/sea.py", "            np.argmax(tournament_fitnesses, axis=1)\n            if population_copy.problem.maximize\n            else np.argmin(tournament_fitnesses, axis=1)", "            np.argmin(tournament_fitnesses, axis=1)")
mut("c13_cma_sign_again", ["C13"], "pyhms/demes/cma_deme.py", "        sign = -1.0 if self._problem.maximize else 1.0", "        sign = 1.0")
# ---- C14
mut("c14_lhs_unseeded", ["C14"], "pyhms/demes/lhs_deme.py", "seed=deme_init_args.random_seed)", "seed=None)")
mut("c14_cma_seed_clock", ["C14"], "pyhms/demes/cma_deme.py", '            opts["seed"] = deme_init_args.random_seed + self._started_at', '            opts["seed"] = 0')
mut("c14_hash_order", ["C14"], "pyhms/sprout/sprout_mechanisms.py", "        return {k: v for k, v in candidates.items() if candidates[k].individuals}", "        keep = {k for k in candidates if candidates[k].individuals}\n        return {k: candidates[k] for k in sorted(keep, key=lambda d: hash(str(d.id)))}", note="iteration order depends on PYTHONHASHSEED")
# ---- C15
mut("c15_threshold_ge", ["C15"], "pyhms/utils/clusterization.py", 'node for node in nodes if node.data["distance"] > mean_distance', 'node for node in nodes if node.data["distance"] >= mean_distance')
mut("c15_nearest_among_all", ["C15"], "pyhms/utils/clusterization.py", "                better_individuals = self.individuals[: self.individuals.index(ind)]", "                better_individuals = [i for i in self.individuals if i is not ind]")
mut("c15_ceil_for_floor", ["C15"], "pyhms/utils/clusterization.py", "self.individuals = sorted_individuals[: int(len(sorted_individuals) * truncation_factor)]", "self.individuals = sorted_individuals[: int(np.ceil(len(sorted_individuals) * truncation_factor))]")
# ---- C16
mut("c16_wrapper_maximize_not_forwarded", ["C16"], "pyhms/core/problem.py", "    @property\n    def maximize(self) -> bool:\n        return self._inner.maximize\n\n\nclass EvalCountingProblem", "    @property\n    def maximize(self) -> bool:\n        return False\n\n\nclass EvalCountingProblem")
mut("c16_cutoff_inf_regardless", ["C16", "C13"], "pyhms/core/problem.py", "            return -np.inf if self._inner.maximize else np.inf", "            return np.inf")
mut("c16_eta_overwritten", ["C16"], "pyhms/core/problem.py", "        if abs(fitness - self._global_optima) <= self.precision and not self.hit_precision:", "        if abs(fitness - self._global_optima) <= self.precision:")
# ---- C17
mut("c17_no_clip_guard", ["C17", "C01"], "pyhms/demes/single_pop_eas/common.py", "    return np.where(in_bounds, genomes, np.clip(repaired_genomes, lower_bounds, upper_bounds))", "    return repaired_genomes")
# ---- C18
mut("c18_flag_not_cleared", ["C18"], "pyhms/tree.py", "                    deme._hibernating = False\n", "                    pass\n")
mut("c18_sleepers_still_run", ["C18", "C06"], "pyhms/tree.py", '            if "hibernation" in self.config.options and self.config.options["hibernation"] and deme._hibernating:\n                continue\n', "")
mut("c18_participants_after", ["C18"], "pyhms/tree.py", "            for _, deme in round_participants:", "            for _, deme in reversed(self.active_non_leaves):")
# ---- C19
mut("c19_getstate_drops_hibernation", ["C19"], "pyhms/demes/abstract_deme.py", "    @property\n    def id(self) -> str:", "    def __getstate__(self):\n        state = self.__dict__.copy()\n        state[\"_hibernating\"] = False\n        return state\n\n    @property\n    def id(self) -> str:")
mut("c19_dump_reseeds", ["C19"], "pyhms/tree.py", '        self._logger.info("Dumping tree snapshot", filepath=filepath)\n', '        self._logger.info("Dumping tree snapshot", filepath=filepath)\n        if self._random_seed is not None:\n            np.random.seed(self._random_seed)\n')
# ---- C20
mut("c20_summary_best_leaf", ["C20"], "pyhms/tree.py", '        lines.append(f"Best fitness: {self.best_individual.fitness:.4e}")\n        lines.append(f"Best individual: {self.best_individual.genome}")\n        lines.append(f"Number of evaluations: {self.n_evaluations}")', '        best = self.best_leaf_individual if self.leaves else self.best_individual\n        lines.append(f"Best fitness: {best.fitness:.4e}")\n        lines.append(f"Best individual: {best.genome}")\n        lines.append(f"Number of evaluations: {self.n_evaluations}")')
mut("c20_accessor_evaluates", ["C20"], "pyhms/demes/abstract_deme.py", "        return max(self.current_population) if self.current_population else None", "        return max(Individual.evaluate_population([Individual(i.genome, self._problem) for i in self.current_population])) if self.current_population else None")
mut("c20_marker_rounded", ["C20"], "pyhms/utils/print_tree.py", "deme.best_individual.fitness == best_fitness else", "round(deme.best_individual.fitness, 2) == round(best_fitness, 2) else")


def sh(cmd, **kw):
    return subprocess.run(cmd, shell=True, capture_output=True, text=True, **kw)


def main():
    sel = sys.argv[1:]
    results = {}
    out_path = "/verif/seeded/selftest_results.json"
    if os.path.exists(out_path):
        results = json.load(open(out_path))
    for m in M:
        if sel and not any(s in m["name"] for s in sel):
            continue
        wt = tempfile.mkdtemp(prefix="pyhms-mut-", dir="/tmp")
        os.rmdir(wt)
        sh(f"git -C /repo worktree add -q --detach {wt} HEAD")
        try:
            p = os.path.join(wt, m["file"])
            s = open(p).read()
            if m["old"] not in s:
                results[m["name"]] = {"status": "NOT-APPLICABLE (anchor text not found)"}
                print(m["name"], "anchor not found")
                continue
            open(p, "w").write(s.replace(m["old"], m["new"], 1))
            t = sh(f"cd {wt} && /venv/bin/python -m pytest -q -p no:cacheprovider --timeout=900 -x 2>&1 | tail -1")
            tests_ok = "55 passed" in t.stdout
            rec = {"tests": t.stdout.strip()[-60:], "props": {}, "note": m["note"]}
            if tests_ok:
                ev = tempfile.mkdtemp(prefix="pyhms-mut-ev-", dir="/tmp")
                for prop in m["props"]:
                    r = sh(f"cd /verif && VERIF_REPO={wt} VERIF_EVIDENCE_DIR={ev} /venv/bin/python -m vlib.check {prop} --tier quick 2>&1")
                    keys = [ln.strip()[:200] for ln in r.stdout.split("\n") if ln.startswith("  mechanism")]
                    rec["props"][prop] = {"rc": r.returncode, "mechanisms": keys[:4]}
                sh(f"rm -rf {ev}")
            rec["status"] = "tests-fail (not a valid seeded change)" if not tests_ok else ("CAUGHT" if any(v["rc"] == 1 for v in rec["props"].values()) else "MISSED")
            results[m["name"]] = rec
            print(m["name"], rec["status"], {k: v["rc"] for k, v in rec["props"].items()})
            sys.stdout.flush()
        finally:
            sh(f"git -C /repo worktree remove --force {wt}")
        json.dump(results, open(out_path, "w"), indent=1)


if __name__ == "__main__":
    main()
