#!/bin/bash
# usage: tools/runall.sh <tier> <seed> [props...]
tier=${1:-quick}; seed=${2:-0}; shift 2
props=${@:-$(/venv/bin/python -c "import json;print(' '.join(c['property_id'] for c in json.load(open('/verif/MANIFEST.json'))['checks']))")}
cd /verif
for p in $props; do
  out=$(VERIF_SEED=$seed /venv/bin/python -m vlib.check $p --tier $tier 2>&1); rc=$?
  echo "$p rc=$rc $(echo "$out" | tail -1)"
  if [ $rc -ne 0 ]; then echo "$out" | grep -E "VIOLATION|INCONCLUSIVE|mechanism" | cut -c1-700; fi
done
