#!/venv/bin/python
"""Regenerates seeded/INDEX.md from the meta.json files and seeded/regression_results.json."""
import glob
import json
import os

HEAD = """# Seeded changes written independently by sub-agents (given only the property text and a scratch worktree)

Each directory holds `patch.diff` (apply with `git apply` to a scratch worktree of /repo), `demo.py` (exits 0 on the unchanged tree, non-zero with the patch; helper modules it imports lie next to it), `agent_notes.md` and `meta.json` (what was run to confirm it, which checks catch it). Round 1 = ids -a/-b, round 2 (rarer conjunctions) = -c/-d, round 3 (+ two focus hints per agent) = -e/-f, round 4 (other hints, earlier mechanisms excluded) = -g/-h, round 5 (small in magnitude, less-visited modules, refactor disguises) = -i/-j. `tools/regress_seeded.py [--seed N]` re-runs all of them against the current checks; the column *now* is its latest result (seeded/regression_results.json).

| id | breaks | change | needs, in order to manifest | caught by (when confirmed) | first run | now |
|---|---|---|---|---|---|---|
"""


def main():
    reg = json.load(open("/verif/seeded/regression_results.json")) if os.path.exists("/verif/seeded/regression_results.json") else {}
    rows = []
    for d in sorted(glob.glob("/verif/seeded/C*-*")):
        sid = os.path.basename(d)
        m = json.load(open(os.path.join(d, "meta.json")))
        r = reg.get(sid, {})
        if m.get("obsolete"):
            now = "obsolete: no longer breaks the property on the repaired tree"
        elif "caught" in r:
            now = ("caught by " + r.get("property", "?")) if r["caught"] else "not caught"
        else:
            now = "-"
        cell = lambda x: str(x or "").replace("|", "\\|").replace("\n", " ")
        rows.append(f"| {sid} | {m.get('breaks_property')} | {cell(m.get('change'))} | {cell(m.get('needs_to_manifest'))} | {cell(', '.join(m.get('caught_by', [])) or '-')} | {cell(m.get('first_run'))} | {now} |")
    open("/verif/seeded/INDEX.md", "w").write(HEAD + "\n".join(rows) + "\n")
    print(len(rows), "rows")


if __name__ == "__main__":
    main()
