#!/venv/bin/python
"""Confirm an independently written seeded change and record it under /verif/seeded/<id>/.

usage: tools/confirm_mut.py <src-dir> <a|b> <seeded-id> <property> [extra props to run ...] [--tier quick|thorough]

Steps (all in a fresh scratch worktree of /repo, removed afterwards; /repo itself is never touched):
  1. demo passes on the clean tree      2. patch applies      3. the 55 existing tests pass with the patch
  4. demo fails with the patch          5. the unchanged checks are aimed at the patched copy (VERIF_REPO)
"""
import json
import os
import shutil
import subprocess
import sys
import tempfile


def sh(cmd, **kw):
    return subprocess.run(cmd, shell=True, capture_output=True, text=True, **kw)


def main():
    args = [a for a in sys.argv[1:] if not a.startswith("--")]
    tier = "quick"
    for i, a in enumerate(sys.argv):
        if a == "--tier":
            tier = sys.argv[i + 1]
            args.remove(tier)
    src, which, sid, prop = args[:4]
    props = [prop] + args[4:]
    patch = os.path.join(src, f"{which}.patch")
    demo = os.path.join(src, f"demo_{which}.py")
    wt = tempfile.mkdtemp(prefix="pyhms-mut-", dir="/tmp")
    os.rmdir(wt)
    sh(f"git -C /repo worktree add -q --detach {wt} HEAD")
    rec = {"breaks_property": prop, "source": "independent sub-agent (given only the property text and a scratch worktree)", "ran": {}}
    try:
        env = f"cd {wt} && PYTHONPATH={wt}"
        dtext = open(demo).read().replace(os.path.dirname(os.path.abspath(src.rstrip("/"))) if False else "", "")
        # the demo asserts that pyhms is imported from the agent's worktree: point it at ours
        agent_wt = os.path.dirname(os.path.abspath(src.rstrip("/")))
        dtext = dtext.replace(agent_wt, wt)
        dpath = os.path.join(wt, "_demo.py")
        open(dpath, "w").write(dtext)
        # helper modules the demo imports (e.g. a brute-force oracle) travel with it
        import glob

        helpers = [h for h in glob.glob(os.path.join(src, "*.py")) if not os.path.basename(h).startswith("demo_")]
        for h in helpers:
            shutil.copy(h, os.path.join(wt, os.path.basename(h)))
        r = sh(f"{env} timeout 600 /venv/bin/python _demo.py")
        rec["ran"]["demo_on_clean_tree"] = {"rc": r.returncode, "tail": (r.stdout + r.stderr)[-300:]}
        r = sh(f"git -C {wt} apply {os.path.abspath(patch)}")
        rec["ran"]["patch_applies"] = r.returncode == 0
        if r.returncode != 0:
            print("PATCH DOES NOT APPLY", r.stderr)
            return 3
        r = sh(f"cd {wt} && /venv/bin/python -m pytest -q -p no:cacheprovider --timeout=900 2>&1 | tail -1")
        rec["ran"]["existing_tests_with_patch"] = r.stdout.strip()[-80:]
        r = sh(f"{env} timeout 600 /venv/bin/python _demo.py")
        rec["ran"]["demo_with_patch"] = {"rc": r.returncode, "tail": (r.stdout + r.stderr)[-400:]}
        os.unlink(dpath)
        for h in helpers:
            os.unlink(os.path.join(wt, os.path.basename(h)))
        ev = tempfile.mkdtemp(prefix="pyhms-mut-ev-", dir="/tmp")
        rec["checks"] = {}
        for p in props:
            r = sh(f"cd /verif && VERIF_REPO={wt} VERIF_EVIDENCE_DIR={ev} /venv/bin/python -m vlib.check {p} --tier {tier} 2>&1")
            keys = [ln.strip()[len("mechanism: ") :][:260] for ln in r.stdout.split("\n") if ln.startswith("  mechanism")]
            rec["checks"][p] = {"tier": tier, "rc": r.returncode, "mechanisms": keys[:6], "last": r.stdout.strip().split("\n")[-1][:200]}
        shutil.rmtree(ev, ignore_errors=True)
    finally:
        sh(f"git -C /repo worktree remove --force {wt}")
    ok = (
        rec["ran"]["demo_on_clean_tree"]["rc"] == 0
        and "55 passed" in rec["ran"]["existing_tests_with_patch"]
        and rec["ran"]["demo_with_patch"]["rc"] != 0
    )
    rec["confirmed"] = ok
    rec["caught_by"] = [p for p, v in rec["checks"].items() if v["rc"] == 1]
    print(json.dumps(rec, indent=1))
    if ok:
        dst = os.path.join("/verif/seeded", sid)
        os.makedirs(dst, exist_ok=True)
        shutil.copy(patch, os.path.join(dst, "patch.diff"))
        shutil.copy(demo, os.path.join(dst, "demo.py"))
        for h in helpers:
            shutil.copy(h, os.path.join(dst, os.path.basename(h)))
        notes = os.path.join(src, "notes.md")
        if os.path.exists(notes):
            shutil.copy(notes, os.path.join(dst, "agent_notes.md"))
        meta_path = os.path.join(dst, "meta.json")
        old = json.load(open(meta_path)) if os.path.exists(meta_path) else {}
        old.update(rec)
        json.dump(old, open(meta_path, "w"), indent=1)
    return 0


if __name__ == "__main__":
    sys.exit(main())
