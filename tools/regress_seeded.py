#!/venv/bin/python
"""Regression over the seeded changes: every change recorded under /verif/seeded/<id>/ is applied to a scratch worktree of
/repo and the quick check of the property it breaks is aimed at it (VERIF_REPO).  Prints one line per change and a summary;
exit 1 if a change that is expected to be caught is missed.  Usage: tools/regress_seeded.py [id-substring ...] [--seed N]
Results: seeded/regression_results.json
"""
import glob
import json
import os
import subprocess
import sys
import tempfile

NOT_BY_DESIGN = {"C20-n", "C09-d", "C09-i", "C04-g", "C07-h", "C10-h", "C20-g", "C04-l", "C18-l"}
# changes that stopped breaking their property when a genuine defect they relied on was repaired in /repo (see meta.json "obsolete")
OBSOLETE = {"C12-c", "C12-e", "C12-h"}
# changes written against one property whose effect is a violation of another one (the check of that other property catches them)
CROSS = {"C16-n": "C02", "C01-h": "C09", "C03-h": "C20", "C07-l": "C10"}


def sh(cmd):
    return subprocess.run(cmd, shell=True, capture_output=True, text=True)


def main():
    args = [a for a in sys.argv[1:] if not a.startswith("--")]
    seed = "0"
    if "--seed" in sys.argv:
        seed = sys.argv[sys.argv.index("--seed") + 1]
        args = [a for a in args if a != seed]
    results = {}
    missed = []
    for d in sorted(glob.glob("/verif/seeded/C*-*")):
        sid = os.path.basename(d)
        if args and not any(a in sid for a in args):
            continue
        if sid in OBSOLETE:
            print(sid, "obsolete (no longer breaks the property on the repaired tree)")
            continue
        meta = json.load(open(os.path.join(d, "meta.json")))
        prop = CROSS.get(sid, meta["breaks_property"])
        wt = tempfile.mkdtemp(prefix="pyhms-mut-", dir="/tmp")
        os.rmdir(wt)
        sh(f"git -C /repo worktree add -q --detach {wt} HEAD")
        ev = tempfile.mkdtemp(prefix="pyhms-mut-ev-", dir="/tmp")
        try:
            r = sh(f"git -C {wt} apply {d}/patch.diff")
            if r.returncode != 0:
                results[sid] = {"status": "patch does not apply any more"}
                print(sid, "PATCH-DOES-NOT-APPLY")
                continue
            r = sh(f"cd /verif && VERIF_SEED={seed} VERIF_REPO={wt} VERIF_EVIDENCE_DIR={ev} /venv/bin/python -m vlib.check {prop} --tier quick 2>&1")
            keys = [ln.strip()[len("mechanism: ") :][:160] for ln in r.stdout.split("\n") if ln.startswith("  mechanism")]
            caught = r.returncode == 1
            results[sid] = {"property": prop, "rc": r.returncode, "caught": caught, "mechanisms": keys[:3], "seed": int(seed)}
            expect = sid not in NOT_BY_DESIGN
            tag = "caught" if caught else ("not caught (by design)" if not expect else "MISSED")
            if expect and not caught:
                missed.append(sid)
            print(sid, prop, tag, "|", (keys[0][:110] if keys else r.stdout.strip().split("\n")[-1][:110]))
            sys.stdout.flush()
        finally:
            sh(f"git -C /repo worktree remove --force {wt}")
            sh(f"rm -rf {ev}")
    out = "/verif/seeded/regression_results.json"
    old = json.load(open(out)) if os.path.exists(out) else {}
    old.update(results)
    json.dump(old, open(out, "w"), indent=1)
    print(f"{len(results)} changes, {sum(1 for v in results.values() if v.get('caught'))} caught, missed: {missed}")
    return 1 if missed else 0


if __name__ == "__main__":
    sys.exit(main())
