#!/bin/bash
# usage: tools/confirm_batch2.sh <prop> [extra props]  -> confirms a,b of /tmp/w9-<prop>/_mut as seeded ids <prop>-c, <prop>-d
p=$1; shift
for w in a b; do
  id=$([ $w = a ] && echo m || echo n)
  if [ -f /tmp/w9-$p/_mut/$w.patch ]; then
    /verif/tools/confirm_mut.py /tmp/w9-$p/_mut $w $p-$id $p "$@" > /tmp/confirm-$p-$id.json 2>&1
    /venv/bin/python - <<PY
import json
t=open('/tmp/confirm-$p-$id.json').read()
try:
    r=json.loads(t[t.index('{'):])
    print('$p-$id','confirmed' if r['confirmed'] else 'NOT-CONFIRMED', 'caught_by',r['caught_by'], {k:(v['rc'],[m[:90] for m in v['mechanisms'][:2]]) for k,v in r['checks'].items()})
    if not r['confirmed']: print('   ', r['ran'])
except Exception as e:
    print('$p-$id','ERROR',t[-400:])
PY
  fi
done
