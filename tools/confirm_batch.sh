#!/bin/bash
# usage: tools/confirm_batch.sh <prop> [extra props]  -> confirms a and b of /tmp/wt-<prop>/_mut
p=$1; shift
for w in a b; do
  if [ -f /tmp/wt-$p/_mut/$w.patch ]; then
    /verif/tools/confirm_mut.py /tmp/wt-$p/_mut $w $p-$w $p "$@" > /tmp/confirm-$p-$w.json 2>&1
    /venv/bin/python - <<PY
import json,re
t=open('/tmp/confirm-$p-$w.json').read()
try:
    r=json.loads(t[t.index('{'):])
    print('$p-$w','confirmed' if r['confirmed'] else 'NOT-CONFIRMED', 'caught_by',r['caught_by'], {k:(v['rc'],[m[:90] for m in v['mechanisms'][:2]]) for k,v in r['checks'].items()})
    if not r['confirmed']: print('   ', r['ran'])
except Exception as e:
    print('$p-$w','ERROR',t[-400:])
PY
  fi
done
