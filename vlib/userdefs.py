"""User-side extensions handed to pyhms through its documented extension points (module-level, so that
dill can pickle trees that contain them): a user-defined local stop condition and a custom deme class
registered for a *new* config class through TreeConfig.config_class_to_deme_class."""
import zlib

import numpy as np

from . import env

env.import_pyhms()
from pyhms.config import BaseLevelConfig, EALevelConfig  # noqa: E402
from pyhms.core.individual import Individual  # noqa: E402
from pyhms.demes.abstract_deme import AbstractDeme  # noqa: E402
from pyhms.demes.ea_deme import EADeme  # noqa: E402
from pyhms.stop_conditions.lsc import LocalStopCondition  # noqa: E402


class PseudoRandomStop(LocalStopCondition):
    """Stops when a pseudo-random bit derived from (salt, deme id, deme metaepoch) is set: frees level
    slots at arbitrary but reproducible times."""

    def __init__(self, salt: int, num: int, den: int) -> None:
        self.salt, self.num, self.den = salt, num, den

    def __call__(self, deme) -> bool:
        h = zlib.crc32(f"{self.salt}:{deme.id}:{deme.metaepoch_count}".encode())
        return (h % self.den) < self.num


class RandomSearchConfig(BaseLevelConfig):
    def __init__(self, problem, lsc, pop_size: int) -> None:
        super().__init__(problem, lsc)
        self.pop_size = pop_size


class RandomSearchDeme(AbstractDeme):
    """Follows the AbstractDeme protocol: evaluates through self._problem, appends one list of generations
    per metaepoch, consults the GSC after its generation and the LSC at the end."""

    def __init__(self, deme_init_args) -> None:
        super().__init__(deme_init_args)
        self._pop_size = deme_init_args.config.pop_size
        pop = self._sample()
        if deme_init_args.sprout_seed is not None:
            pop[-1] = Individual(deme_init_args.sprout_seed.genome, problem=self._problem)
        Individual.evaluate_population(pop)
        self._history.append([pop])

    def _sample(self):
        lo, hi = self._bounds[:, 0], self._bounds[:, 1]
        return [Individual(np.random.uniform(lo, hi), problem=self._problem) for _ in range(self._pop_size)]

    def run_metaepoch(self, tree) -> None:
        pop = self._sample()
        Individual.evaluate_population(pop)
        self._centroid = None
        self._history.append([pop])
        if tree._gsc(tree) or self._lsc(self):
            self._active = False


class CallableObjective:
    """An objective given as a callable instance (holds no state of its own besides the recorder closure)."""

    def __init__(self, rec) -> None:
        self.rec = rec  # functions are deep-copy-atomic, so the sprout mechanism's deep copies share it

    def __call__(self, x, *args, **kwargs):
        return self.rec(x, *args, **kwargs)


class TaggedEAConfig(EALevelConfig):
    """A *new* config class that derives from a built-in one (registered for its own deme class)."""


class TaggedEADeme(EADeme):
    """Custom deme class registered for TaggedEAConfig: an EA deme that tags itself."""

    tag = "custom-ea"


class OverridingEADeme(EADeme):
    """A user's own deme class registered for the *built-in* EALevelConfig (e.g. an EADeme that traces or post-processes)."""

    tag = "overrides-built-in"


class TaggedEAConfig2(TaggedEAConfig):
    """A second user config class, derived from the first one and registered (after it) for its own deme class."""


class TaggedEADeme2(TaggedEADeme):
    tag = "custom-ea-2"


class PureCopyFilter:
    """A user-written candidates filter in functional style: it does not touch what it is handed and returns a *new* dict
    with new DemeCandidates objects (legal under the filters' `-> dict` contract).  Drops nothing."""

    def __call__(self, candidates, tree):
        from pyhms.sprout.sprout_candidates import DemeCandidates

        return {deme: DemeCandidates(individuals=list(c.individuals), features=c.features) for deme, c in candidates.items()}


class BestParentsFirstFilter:
    """A user-written deme-level filter that drops nothing but hands the candidates on in another order: parents sorted by the quality of
    their best candidate (best first), whatever level they are on.  Legal: nothing in the filters' contract fixes the order of the dict."""

    def __call__(self, candidates, tree):
        with_c = [(d, c) for d, c in candidates.items() if c.individuals]
        without = [(d, c) for d, c in candidates.items() if not c.individuals]
        with_c.sort(key=lambda it: max(it[1].individuals), reverse=True)
        return dict(with_c + without)


class PlainObjective:
    """An objective given as an instance of an importable class that holds plain data only - what the *standard* pickler accepts, and
    the usual shape of a user's problem class.  Records every call like the recorder closure does.  Deep copies share the instance
    (the sprout mechanism deep-copies seeds together with the problem behind them in every round)."""

    def __init__(self, log, tag, obj, bounds, sign, shift=0.0) -> None:
        self.log, self.tag, self.obj, self.bounds, self.sign, self.shift = log, tag, obj, [list(map(float, b)) for b in bounds], float(sign), float(shift)

    def __deepcopy__(self, memo):
        return self

    def __getstate__(self):
        d = dict(self.__dict__)
        d.pop("_g", None)
        return d

    def __call__(self, x, *args, **kwargs):
        g = self.__dict__.get("_g")
        if g is None:
            from .objectives import make_math

            g = self.__dict__["_g"] = make_math(self.obj, self.bounds)
        xc = np.array(x, dtype=np.float64).reshape(-1).copy()
        y = g(xc)
        if self.shift:
            y = y + self.shift
        if self.sign < 0:
            y = -y
        self.log.append((self.tag, xc.tobytes(), y))
        if len(self.log) > 400000:
            from .harness import WatchdogAbort

            raise WatchdogAbort("evaluation cap")
        return y
