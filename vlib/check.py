"""CLI:  python -m vlib.check <PROP> --tier quick|thorough [--cases N] [--jobs J] [--replay FILE]"""
import argparse
import json
import os
import sys

from . import env


def main():
    ap = argparse.ArgumentParser()
    ap.add_argument("prop")
    ap.add_argument("--tier", default=os.environ.get("VERIF_TIER") or "quick", choices=["quick", "thorough"])
    ap.add_argument("--cases", type=int, default=None)
    ap.add_argument("--jobs", type=int, default=None)
    ap.add_argument("--budget", type=float, default=None)
    ap.add_argument("--replay", default=None)
    a = ap.parse_args()
    if a.replay:
        return replay(a.prop, a.replay)
    from .runner import main_check

    return main_check(a.prop, a.tier, a.cases, a.jobs, a.budget)


def replay(prop, path):
    from .props import PROPS

    with open(path) as f:
        rec = json.load(f)
    w = rec.get("witness", rec)
    desc = w.get("case", w)
    spec = PROPS[prop]
    res = spec.run_case(desc)
    vs = res.get("violations", [])
    print(json.dumps({"case": desc, "violations": vs, "aborted": res.get("aborted")}, indent=1, default=str)[:20000])
    if vs:
        print(f"VIOLATION property={prop} replay={path}")
        return 1
    return 0


if __name__ == "__main__":
    sys.exit(main())
