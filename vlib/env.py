"""Environment: where the repository is, seeds, tiers, budgets.

Importing this module puts $VERIF_REPO (default /repo) at sys.path[0], so `import pyhms` executes the
current working tree (that is the "rebuild" step for a pure-Python target) and lets the self-test aim the
same checks at a scratch copy.
"""
import os
import sys
import warnings

VERIF_DIR = os.path.dirname(os.path.dirname(os.path.abspath(__file__)))
REPO = os.path.abspath(os.environ.get("VERIF_REPO", "/repo"))
SEED = int(os.environ.get("VERIF_SEED", "0") or 0)
JOBS = int(os.environ.get("VERIF_JOBS", "0") or 0) or min(16, os.cpu_count() or 4)
GUARD = "AGH_A2S_PYHMS_VERIF"
# VERIF_EVIDENCE_DIR redirects evidence + replays (used when the checks are aimed at a seeded-defect copy)
EVIDENCE_DIR = os.environ.get("VERIF_EVIDENCE_DIR") or os.path.join(VERIF_DIR, "evidence")
REPLAY_DIR = os.path.join(EVIDENCE_DIR, "replays")
KNOWN_FINDINGS = os.path.join(VERIF_DIR, "known_findings.json")
PYTHON = os.environ.get("VERIF_PYTHON", "/venv/bin/python")

_deps = os.path.join(VERIF_DIR, ".deps")
if os.path.isdir(_deps) and _deps not in sys.path:
    sys.path.append(_deps)


def scratch_root() -> str:
    """Scratch directory outside /repo and /verif (dump files, mutant copies)."""
    base = os.environ.get("VERIF_SCRATCH") or os.environ.get("TMPDIR") or "/tmp"
    path = os.path.join(base, "pyhms-verif-scratch")
    os.makedirs(path, exist_ok=True)
    return path


_imported = False


def import_pyhms():
    """Import pyhms from REPO (and assert that this is what we got)."""
    global _imported
    if REPO not in sys.path[:1]:
        if REPO in sys.path:
            sys.path.remove(REPO)
        sys.path.insert(0, REPO)
    os.environ.setdefault("MPLBACKEND", "Agg")
    with warnings.catch_warnings():
        warnings.simplefilter("ignore")
        import pyhms  # noqa
    here = os.path.abspath(pyhms.__file__)
    if not here.startswith(REPO + os.sep):
        raise RuntimeError(f"pyhms imported from {here}, expected under {REPO}")
    if not _imported:
        # structlog prints to stdout; keep the workers quiet (log level stays WARNING in pyhms anyway)
        _imported = True
    return pyhms
