"""Pure, deterministic objective families, defined relative to the box so each is meaningful in every box.

`make_math(obj, bounds)` returns g(x) -> python float in *minimisation form*; the user objective handed to
pyhms is  f = sign * g  with sign = -1 for maximisation (negation is exact in floating point, which is what
makes the min/max twins of C13 comparable bit by bit).

All arithmetic is done on python floats in a fixed order (no BLAS / SIMD reductions), so the value depends on
the coordinates only - never on memory alignment or array position.  That is what allows the exact
re-evaluation oracle of C02.
"""
import math

FAMILIES = ["sphere", "rastrigin", "funnel", "linear", "plateau", "constant", "face", "absv"]


def make_math(obj: dict, bounds):
    lo = [float(b[0]) for b in bounds]
    hi = [float(b[1]) for b in bounds]
    d = len(lo)
    R = [hi[i] - lo[i] for i in range(d)]
    fam = obj["fam"]
    u = list(obj.get("u", []))[:d]
    u = u + [0.5] * (d - len(u))
    c = [lo[i] + u[i] * R[i] for i in range(d)]
    rng = range(d)

    if fam == "sphere":

        def g(x):
            xs = x.tolist()
            s = 0.0
            for i in rng:
                z = (xs[i] - c[i]) / R[i]
                s += z * z
            return s

    elif fam == "rastrigin":
        k = float(obj.get("k", 4.0))
        tp = 2.0 * math.pi

        def g(x):
            xs = x.tolist()
            s = 0.0
            for i in rng:
                z = (xs[i] - c[i]) / R[i] * k
                s += z * z - math.cos(tp * z) + 1.0
            return s

    elif fam == "funnel":
        us = [list(r)[:d] for r in obj["us"]]
        cs = [[lo[i] + r[i] * R[i] for i in rng] for r in us]
        offs = [float(v) for v in obj["offs"]]
        sc = [float(v) for v in obj["sc"]]

        def g(x):
            xs = x.tolist()
            best = math.inf
            for j, cj in enumerate(cs):
                s = 0.0
                for i in rng:
                    z = (xs[i] - cj[i]) / R[i]
                    s += z * z
                v = s * sc[j] + offs[j]
                if v < best:
                    best = v
            return best

    elif fam == "linear":
        w = [float(v) for v in obj["w"]][:d]

        def g(x):
            xs = x.tolist()
            s = 0.0
            for i in rng:
                s += w[i] * ((xs[i] - lo[i]) / R[i])
            return s

    elif fam == "plateau":
        q = float(obj.get("q", 8.0))

        def g(x):
            xs = x.tolist()
            s = 0.0
            for i in rng:
                z = (xs[i] - c[i]) / R[i]
                s += z * z
            return float(math.floor(q * s))

    elif fam == "constant":
        v = float(obj.get("v", 0.0))

        def g(x):
            return v

    elif fam == "face":
        side = list(obj["side"])[:d]
        cf = list(c)
        for i, s_ in enumerate(side):
            if s_ < 0:
                cf[i] = lo[i]
            elif s_ > 0:
                cf[i] = hi[i]

        def g(x):
            xs = x.tolist()
            s = 0.0
            for i in rng:
                z = (xs[i] - cf[i]) / R[i]
                s += z * z
            return s

    elif fam == "offset":
        # a smooth bowl on top of a huge constant: distinct values that agree to 9+ significant digits
        off = float(obj.get("off", 1e9))

        def g(x):
            xs = x.tolist()
            s = 0.0
            for i in rng:
                z = (xs[i] - c[i]) / R[i]
                s += z * z
            return off + s

    elif fam == "tinyval":
        # a bowl whose values are of the order 1e-12 (absolute tie-breaks / tolerances must not outrank them)
        sc_ = float(obj.get("scale", 1e-12))

        def g(x):
            xs = x.tolist()
            s = 0.0
            for i in rng:
                z = (xs[i] - c[i]) / R[i]
                s += z * z
            return sc_ * s

    elif fam == "penalty":
        # a hard penalty: the value is infinite in the *bad* direction in a corner region (e.g. an infeasible zone)
        frac = float(obj.get("frac", 0.3))

        def g(x):
            xs = x.tolist()
            s = 0.0
            bad = True
            for i in rng:
                z = (xs[i] - c[i]) / R[i]
                s += z * z
                if (xs[i] - lo[i]) / R[i] > frac:
                    bad = False
            return math.inf if bad else s

    elif fam == "nanzone":
        # undefined (NaN) in a corner region - used only where a claim is about code that must not compare individuals at all
        frac = float(obj.get("frac", 0.5))

        def g(x):
            xs = x.tolist()
            s = 0.0
            bad = True
            for i in rng:
                z = (xs[i] - c[i]) / R[i]
                s += z * z
                if (xs[i] - lo[i]) / R[i] > frac:
                    bad = False
            return math.nan if bad else s

    elif fam == "pit":
        # a small region in which the value is infinite in the *good* direction (legal, if degenerate)
        rad = float(obj.get("rad", 0.15))

        def g(x):
            xs = x.tolist()
            s = 0.0
            for i in rng:
                z = (xs[i] - c[i]) / R[i]
                s += z * z
            return -math.inf if s < rad * rad else s

    elif fam == "intpen":
        # a float objective with an integer literal on one branch (`return 100` for a rejected point): mixed return types
        thr = float(obj.get("thr", 0.35))

        def g(x):
            xs = x.tolist()
            s = 0.0
            for i in rng:
                z = (xs[i] - c[i]) / R[i]
                s += z * z
            if s > thr:
                return 100
            return s

    elif fam == "intval":
        # an integer-valued objective that returns python ints (a count), never floats
        q = float(obj.get("q", 8.0))

        def g(x):
            xs = x.tolist()
            s = 0.0
            for i in rng:
                z = (xs[i] - c[i]) / R[i]
                s += z * z
            return int(math.floor(q * s))

    elif fam == "f32":
        # values returned as numpy float32 scalars (e.g. the output of a float32 model)
        import numpy as _np

        def g(x):
            xs = x.tolist()
            s = 0.0
            for i in rng:
                z = (xs[i] - c[i]) / R[i]
                s += z * z
            return _np.float32(s) if s > 0.05 else s

    elif fam == "absv":

        def g(x):
            xs = x.tolist()
            s = 0.0
            for i in rng:
                s += abs((xs[i] - c[i]) / R[i])
            return s

    else:
        raise ValueError(fam)
    return g


def g_min(obj: dict, bounds) -> float:
    """Exact minimum of g over the box (known by construction for every family)."""
    fam = obj["fam"]
    if fam == "constant":
        return float(obj.get("v", 0.0))
    if fam == "offset":
        return float(obj.get("off", 1e9))
    if fam == "pit":
        return -math.inf
    if fam == "linear":
        return float(sum(min(float(w), 0.0) for w in obj["w"][: len(bounds)]))
    return 0.0


def gen_objective(rng, d: int, fam: str | None = None) -> dict:
    fam = fam or rng.choice(FAMILIES)
    obj = {"fam": fam, "u": [round(rng.uniform(0.1, 0.9), 3) for _ in range(d)]}
    if fam == "rastrigin":
        obj["k"] = rng.choice([2.0, 3.0, 5.0])
    elif fam == "funnel":
        n = rng.randint(2, 4)
        obj["us"] = [[round(rng.uniform(0.1, 0.9), 3) for _ in range(d)] for _ in range(n)]
        obj["offs"] = [0.0] + [round(rng.uniform(0.01, 0.2), 3) for _ in range(n - 1)]
        obj["sc"] = [round(rng.uniform(0.5, 4.0), 2) for _ in range(n)]
    elif fam == "linear":
        obj["w"] = [rng.choice([-1, 1]) * round(rng.uniform(0.5, 1.5), 2) for _ in range(d)]
    elif fam == "plateau":
        obj["q"] = rng.choice([4.0, 8.0, 30.0])
    elif fam == "constant":
        obj["v"] = rng.choice([0.0, 1.5, -2.0])
    elif fam == "tinyval":
        obj["scale"] = rng.choice([1e-11, 1e-12, 1e-13])
    elif fam == "penalty":
        obj["frac"] = rng.choice([0.25, 0.4])
    elif fam == "nanzone":
        obj["frac"] = rng.choice([0.8, 0.85, 0.9])
    elif fam == "offset":
        obj["off"] = rng.choice([1e6, 1e9, -1e9])
    elif fam == "pit":
        obj["rad"] = rng.choice([0.1, 0.2, 0.3])
    elif fam == "intpen":
        obj["thr"] = rng.choice([0.2, 0.35, 0.5])
    elif fam == "intval":
        obj["q"] = rng.choice([4.0, 8.0, 30.0])
    elif fam == "face":
        side = [rng.choice([-1, 1, 0]) for _ in range(d)]
        if not any(side):
            side[rng.randrange(d)] = rng.choice([-1, 1])
        obj["side"] = side
    return obj
