"""Worker process: runs the cases  k, k+J, k+2J, ... < n  of one property check and writes one JSON file."""
import json
import signal
import sys
import time
import traceback
from collections import Counter


class CaseTimeout(BaseException):
    pass


def _alarm(signum, frame):
    raise CaseTimeout()


def main(argv):
    prop, tier, seed, k, jobs, n, out, budget = argv[0], argv[1], int(argv[2]), int(argv[3]), int(argv[4]), int(argv[5]), argv[6], float(argv[7])
    from .harness import HarnessError
    from .props import PROPS

    spec = PROPS[prop]
    cov = Counter()
    nontrivial = []
    seen_nt = set()
    violations = []
    samples = []
    aborted = Counter()
    harness_errors = []
    done = timeouts = skipped = 0
    slow = []
    t0 = time.time()
    signal.signal(signal.SIGALRM, _alarm)
    idxs = list(range(k, n, jobs))
    for pos, idx in enumerate(idxs):
        if time.time() - t0 > budget:
            skipped = len(idxs) - pos
            break
        desc = spec.make_case(seed, idx, tier)
        signal.setitimer(signal.ITIMER_REAL, spec.case_timeout)
        tc = time.time()
        try:
            res = spec.run_case(desc)
        except CaseTimeout:
            timeouts += 1
            if len(slow) < 5:
                slow.append({"idx": idx, "timeout": True, "case": desc})
            continue
        except HarnessError as e:
            harness_errors.append(f"case {idx}: {e}"[-3000:])
            if len(harness_errors) > 3:
                break
            continue
        except Exception:
            harness_errors.append(f"case {idx}: {traceback.format_exc()}"[-3000:])
            if len(harness_errors) > 3:
                break
            continue
        finally:
            signal.setitimer(signal.ITIMER_REAL, 0)
        done += 1
        if time.time() - tc > 10 and len(slow) < 5:
            slow.append({"idx": idx, "s": round(time.time() - tc, 1), "case": desc})
        cov.update(res.get("cov", {}))
        for x in res.get("nontrivial", []):
            s = json.dumps(x, sort_keys=True, default=str)
            if s not in seen_nt:
                seen_nt.add(s)
                nontrivial.append(json.loads(s))
        if res.get("aborted"):
            aborted[res["aborted"]] += 1
        for v in res.get("violations", []):
            if sum(1 for w in violations if w["key"] == v["key"]) < 4:
                v = dict(v)
                v["case_idx"] = idx
                v["case"] = desc
                violations.append(v)
            else:
                cov["violations_not_kept"] += 1
        if len(samples) < 2 and res.get("sample") is not None:
            samples.append(res["sample"])
    with open(out, "w") as f:
        json.dump(
            {
                "worker": k,
                "done": done,
                "timeouts": timeouts,
                "skipped_for_time": skipped,
                "cov": dict(cov),
                "nontrivial": nontrivial,
                "violations": violations,
                "samples": samples,
                "aborted": dict(aborted),
                "harness_errors": harness_errors,
                "slow": slow,
            },
            f,
            default=str,
        )


if __name__ == "__main__":
    main(sys.argv[1:])
