"""pytest plugin (`-p vlib.pytest_taps`): runs the repository's own tests with contract-style taps on pure
components, as one more source of executions for the oracles of C17 (apply_bounds) and C10 (filters, generators).
Results (evaluation counts per contract + violations) go to the JSON file named by $VERIF_TAPS_OUT.
References bound before the taps are installed would bypass them: the plugin counts evaluations and the caller
treats zero as inconclusive for that contract.
"""
import json
import os
from collections import Counter
from fractions import Fraction

COUNTS = Counter()
VIOLATIONS = []


def _viol(prop):
    def v(key, **detail):
        if sum(1 for x in VIOLATIONS if x["key"] == key) < 3:
            VIOLATIONS.append({"property": prop, "key": key, "detail": {k: str(val)[:200] for k, val in detail.items()}, "source": "repository test suite under taps"})

    return v


def pytest_configure(config):
    import numpy as np

    from . import harness  # imports pyhms from $VERIF_REPO
    from .monitors import c10, c17

    from pyhms.demes.single_pop_eas import common
    from pyhms.sprout import sprout_filters as sf
    from pyhms.sprout import sprout_generators as sg

    orig_ab = common.apply_bounds
    v17 = _viol("C17")

    def apply_bounds(genomes, bounds, method):
        src = np.array(genomes, dtype=np.float64, copy=True)
        out = orig_ab(genomes, bounds, method)
        COUNTS["apply_bounds." + str(method)] += 1
        try:
            o = np.asarray(out, dtype=np.float64)
            b = np.asarray(bounds, dtype=np.float64)
            lo, hi = b[:, 0], b[:, 1]
            if not (np.all(o >= lo) and np.all(o <= hi)):
                v17(f"{method}: result outside the box (in the repository's tests)", bounds=b.tolist(), out=o.tolist()[:4])
            inside = (src >= lo) & (src <= hi)
            tol = 4 * np.spacing(np.maximum(np.maximum(np.abs(src), np.abs(lo)), np.abs(hi)))
            if np.any(inside & (np.abs(o - src) > tol)):
                v17(f"{method}: a coordinate that was already in the box was moved (in the repository's tests)", bounds=b.tolist())
            COUNTS["apply_bounds.coordinates"] += int(o.size)
        except Exception as e:  # the contract itself must never break a test
            COUNTS["apply_bounds.contract_error." + type(e).__name__] += 1
        return out

    harness.rebind_everywhere(orig_ab, apply_bounds)

    v10 = _viol("C10")

    def wrap_filter(cls):
        orig = cls.__call__

        def __call__(self, candidates, tree):
            before = {d: list(c.individuals) for d, c in candidates.items()}
            out = orig(self, candidates, tree)
            try:
                mx = None
                for inds in before.values():
                    for i in inds:
                        mx = bool(i.problem.maximize)
                        break
                    if mx is not None:
                        break
                if mx is not None and hasattr(tree, "levels"):
                    c10.check_filter(self, before, out, tree, mx, v10, COUNTS)
                COUNTS["filter_applications." + cls.__name__] += 1
            except Exception as e:
                COUNTS["filter.contract_error." + type(e).__name__] += 1
            return out

        cls.__call__ = __call__

    for cls in (sf.DemeLimit, sf.LevelLimit, sf.SkipSameSprout, sf.FarEnough, sf.NBC_FarEnough):
        wrap_filter(cls)

    def wrap_gen(cls):
        orig = cls.__call__

        def __call__(self, tree):
            out = orig(self, tree)
            try:
                mx = bool(tree.root._problem.maximize)
                c10.check_generator(self, out, tree, mx, v10, COUNTS)
                COUNTS["generator_calls." + cls.__name__] += 1
            except Exception as e:
                COUNTS["generator.contract_error." + type(e).__name__] += 1
            return out

        cls.__call__ = __call__

    for cls in (sg.BestPerDeme, sg.NBC_Generator, sg.NBCGeneratorWithLocalMethod):
        wrap_gen(cls)


def pytest_sessionfinish(session, exitstatus):
    out = os.environ.get("VERIF_TAPS_OUT")
    if out:
        with open(out, "w") as f:
            json.dump({"counts": dict(COUNTS), "violations": VIOLATIONS, "exitstatus": int(exitstatus)}, f)
