"""Per-property check specifications: workload profile, monitors, sizes, coverage floors."""
from collections import Counter

from . import gen
from .gen import CMA_ENGINES, INNER_ENGINES, LEAF_ONLY, POP_ENGINES, ROOT_ENGINES, SEA_FAMILY

PROPS = {}

COMMON_ASSUMPTIONS = [
    "CPython, numpy, scipy, cma, dill as installed are trusted",
    "the objective is pure, deterministic and never NaN (guaranteed by the generator; the one exception is C19's dump-purity sub-case, which runs on an objective that is NaN in a region)",
    "all levels of a tree optimise over the same box (per-level boxes are outside what the properties quantify over)",
    "only configurations, boxes, objectives and seeds produced by vlib/gen.py are covered; nothing is claimed for paths the workload never drove",
    "taps are pass-through wrappers attached from the harness (vlib/harness.py); no source hook in /repo",
]


class Spec:
    prop = "C00"
    rule = ""
    assumptions = COMMON_ASSUMPTIONS
    case_timeout = 60.0
    sizes = {"quick": 100, "thorough": 6000}
    budgets = {"quick": 150.0, "thorough": 900.0}

    def n_cases(self, tier):
        return self.sizes[tier]

    def budget_s(self, tier):
        return self.budgets[tier]

    def floors(self, tier):
        return []

    def make_case(self, seed, idx, tier):
        raise NotImplementedError

    def run_case(self, desc):
        raise NotImplementedError


def run_result(ctx, desc, extra_sample=None):
    cov = Counter(ctx.cov)
    cov["runs"] += 1
    cov["objective_evaluations"] += len(ctx.log)
    cov["gsc_consultations"] += ctx.n_gsc
    cov["metaepochs"] += ctx.step
    if ctx.tree is not None:
        cov["demes"] += sum(len(lvl) for lvl in ctx.tree.levels)
    for li, lv in enumerate(desc.get("levels", [])):
        cov[f"engine.{lv['engine']}"] += 1
        cov[f"lsc.{lv['lsc']['k']}"] += 1
    cov[f"box.{desc['box']['cls']}"] += 1
    cov[f"objective.{desc['obj']['fam']}"] += 1
    cov[f"direction.{'max' if desc.get('maximize') else 'min'}"] += 1
    if any(lv.get("method") == "l-bfgs-b" for lv in desc.get("levels", [])):
        cov["local_method_name_in_lower_case"] += 1
    if desc.get("options", {}).get("log_level") in ("info", "debug"):
        cov["log_level.verbose"] += 1
    if desc.get("cached_problem_on_a_box_far_from_zero"):
        cov["cached_problem_on_a_box_far_from_zero"] += 1
    if desc.get("local_search_below_a_parent_on_an_objective_with_infinite_values"):
        cov["local_search_below_a_parent_on_an_objective_with_infinite_values"] += 1
    if "gsc" in desc:
        cov[f"gsc.{desc['gsc']['k']}"] += 1
        cov[f"sprout.{desc['sprout']['k']}"] += 1
        cov[f"height.{len(desc['levels'])}"] += 1
        cov[f"entry.{desc.get('entry')}"] += 1
    ab = None
    if ctx.aborted:
        ab = ctx.aborted[0] + ":" + str(ctx.aborted[1])
    for w, n in ctx.warns.items():
        cov["warning." + w.split(":")[0]] += n
    sample = {
        "engines": gen.engine_mix(desc) if "levels" in desc else desc.get("kind"),
        "box": desc["box"],
        "objective": desc["obj"]["fam"],
        "maximize": desc.get("maximize"),
        "gsc": desc.get("gsc"),
        "sprout": desc.get("sprout", {}).get("k"),
        "options": desc.get("options"),
        "observed": {
            "evaluations": len(ctx.log),
            "gsc_consultations": ctx.n_gsc,
            "metaepochs": ctx.step,
            "demes": sum(len(lvl) for lvl in ctx.tree.levels) if ctx.tree is not None else 0,
            "first_true": ctx.first_true,
            "aborted": ab,
        },
    }
    if extra_sample:
        sample.update(extra_sample)
    return {
        "violations": [v for v in ctx.violations],
        "cov": cov,
        "nontrivial": [list(x[1]) if isinstance(x[1], tuple) else x[1] for x in ctx.nontrivial],
        "aborted": ab,
        "sample": sample,
    }


class RunSpec(Spec):
    """Generated tree runs observed by one or more online monitors."""

    monitors = ()
    base_profile = {}

    def profile(self, rng, idx, tier):
        return dict(self.base_profile)

    reuse_every = None  # every n-th case runs two trees from the same configuration objects (see harness.run_reuse_pair)
    soak_every = None  # thorough tier: every n-th case is a long run (30-80 metaepochs, churning stop conditions)

    def make_case(self, seed, idx, tier):
        rng = gen.case_rng(self.prop, seed, idx)
        prof = self.profile(rng, idx, tier)
        if prof.get("kind") == "minimize":
            return gen.gen_minimize_case(rng, prof)
        soak = tier == "thorough" and self.soak_every and idx % self.soak_every == self.soak_every - 1
        if soak:
            prof = dict(prof)
            prof.update({"gsc": "melimit", "max_pop": 10, "max_gens": 2, "lscs": ["user", "melimit", "user", "dontstop"], "dim": (2, 2)})
            prof.pop("gscs", None)
        reuse = self.reuse_every and idx % self.reuse_every == self.reuse_every - 1 and not soak
        if reuse:
            prof = dict(prof)
            prof.update({"allow_cutoff": False, "entry": "tree"})
            if prof.get("gsc") in ("precision", "dontrun"):
                prof["gsc"] = "melimit"
        d = gen.gen_tree_case(rng, prof)
        if soak:
            d["gsc"] = {"k": "melimit", "n": rng.randint(30, 80)}
            d["soak"] = True
        if reuse and d["gsc"]["k"] not in ("precision",):
            d["reuse"] = True
        return d

    def run_case(self, desc):
        return run_desc(desc, lambda: [m() for m in self.monitors])


def run_desc(desc, make_monitors):
    """Run one tree descriptor under fresh monitors; `reuse` descriptors run two trees from the same configuration
    objects (both monitored) and merge what was observed."""
    from . import harness

    if desc.get("second_box") and desc.get("kind", "tree") != "minimize":
        c1, c2 = harness.run_retarget_pair(desc, make_monitors)
        res = run_result(c2, c2.desc)
        res["cov"]["retargeted_configurations"] += 1
        if not c2.aborted:
            res["cov"]["retargeted_configurations_completed"] += 1
        for v in res["violations"]:
            v["detail"] = dict(v.get("detail", {}), tree_built_from_a_deep_copied_and_retargeted_configuration=True)
        return res
    if desc.get("reuse") and desc.get("kind", "tree") != "minimize":
        c1, c2 = harness.run_reuse_pair(desc, make_monitors)
        res = run_result(c1, desc)
        r2 = run_result(c2, c2.desc)
        res["cov"].update(r2["cov"])
        res["cov"]["reuse_pairs"] += 1
        if not c2.aborted:
            res["cov"]["reuse_pairs_second_tree_completed"] += 1
        for v in r2["violations"]:
            v = dict(v)
            v["detail"] = dict(v.get("detail", {}), second_tree_of_a_reused_configuration=True)
            res["violations"].append(v)
        res["nontrivial"].extend(r2["nontrivial"])
        res["sample"]["reused_configuration"] = {"second_tree": r2["sample"]["observed"]}
        if r2.get("aborted") and not res.get("aborted"):
            res["aborted"] = "second-tree:" + r2["aborted"]
        return res
    ctx = harness.run_case(desc, make_monitors())
    return run_result(ctx, desc)


def _cycle(seq, idx, stride=1):
    return seq[(idx // stride) % len(seq)]


def register(cls):
    PROPS[cls.prop] = cls()
    return cls


def _mon(name):
    def get():
        from .monitors import c01_c04, c05_c09, c11_c18

        for m in (c01_c04, c05_c09, c11_c18):
            if hasattr(m, name):
                return getattr(m, name)()
        raise KeyError(name)

    return get


ALL_LEAVES = INNER_ENGINES + LEAF_ONLY + ["lhs", "sobol"]  # LHS / Sobol are legal below the root too (they ignore the seed)


@register
class C01(RunSpec):
    prop = "C01"
    rule = (
        "seeded random tree configurations (stratified over engine per level, box class, objective family); a case is "
        "non-trivial when >=1 evaluated point lay within 1% of a face; distinct = distinct (engine mix, box class, objective family)"
    )
    monitors = (_mon("C01Box"),)
    sizes = {"quick": 160, "thorough": 9000}

    def profile(self, rng, idx, tier):
        p = {"dim": (2, 6), "stacks": False}
        p["root"] = _cycle(ROOT_ENGINES, idx)
        p["leaf"] = _cycle(ALL_LEAVES, idx, 1)
        p["inner"] = _cycle(INNER_ENGINES, idx, 3)
        p["box"] = _cycle(gen.BOX_CLASSES + ["decimal", "decimal"], idx, 1)
        p["fams"] = ["linear", "face", "linear", "face", "sphere", "rastrigin", "funnel", "absv", "plateau", "constant"]
        p["levels"] = [2, 2, 3, 1] if idx % 10 else [1]
        p["gscs"] = ["melimit", "evals"]
        if idx % 16 == 3:
            # a local search pulled towards / across a face, with the method name spelt the way scipy itself accepts it
            p.update({"leaf": _cycle(["local", "local_maxiter"], idx // 16), "fams": ["linear", "face"], "levels": [2, 3], "local_method": "l-bfgs-b"})
        if idx % 16 == 11:
            # CMA-ES left to run until its own termination criteria fire, pulled onto a face / into a corner: by then the mean of
            # its search distribution (kept in the engine's unbounded coordinates) typically lies outside the box
            p.update({"leaf": _cycle(CMA_ENGINES, idx // 16), "fams": ["face", "linear", "face"], "levels": [2, 2, 3], "gsc": "melimit", "free_lscs": True,
                      "root": _cycle(["sea", "de", "shade", "lhs"], idx // 16), "allow_cutoff": False})
            p.pop("gscs", None)
        if idx % 16 == 4:
            # a box with one very narrow coordinate next to zero and the default sampling width (1.0) for sprouted populations: almost every
            # draw around the seed is rejected (thousands of draws per accepted individual) - whatever a sampler does when it gives up on
            # rejection, the point it returns must be in the box
            p.update({"root": _cycle(["sea", "de"], idx // 16), "leaf": _cycle(["sea", "de", "shade"], idx // 16), "n_levels": 2, "fams": ["sphere", "rastrigin"], "box": "needle",
                      "sprout": "simple", "gsc": "melimit", "free_lscs": True, "allow_cutoff": False, "dim": (2, 2), "level_limit": 3, "hibernation": False})
            p.pop("gscs", None)
        if idx % 16 == 2:
            # local searches in a box narrower than the step of scipy's numerical derivative
            p.update({"root": _cycle(["sea", "de", "lhs"], idx // 16), "leaf": _cycle(["local", "local_maxiter"], idx // 16), "n_levels": 2, "fams": ["linear", "face", "sphere"], "box": "nano",
                      "sprout": "simple", "gsc": "melimit", "free_lscs": True, "allow_cutoff": False, "dim": (3, 5), "level_limit": 6})
            p.pop("gscs", None)
        if idx % 16 == 1:
            # an objective with infinite values (a region in which it is infinitely good, or a penalty of +inf) and a local search sprouted
            # from a parent whose best point has such a value: whatever scipy's arithmetic does with it, the objective is only called in the box
            p.update({"root": _cycle(["sea", "de", "lhs", "ga"], idx // 16), "leaf": _cycle(["local", "local_maxiter"], idx // 16), "n_levels": 2, "fam": _cycle(["pit", "pit", "penalty"], idx // 16),
                      "sprout": "simple", "gsc": "melimit", "free_lscs": True, "allow_cutoff": False, "boxes": ["sym", "asym", "decimal"], "dim": (2, 3)})
            p.pop("gscs", None)
            p.pop("fams", None)
            p.pop("box", None)
        if idx % 16 == 9:
            # a GA-style leaf (arithmetic crossover, uniform mutation of a few genes only) sprouted from parents that have converged exactly onto
            # a face of a box with decimal bounds: a blend of two equal coordinates must not leave the box by a rounding error
            p.update({"root": _cycle(["shade", "de_dither"], idx // 16), "leaf": "ga", "n_levels": 2, "fams": ["linear"], "box": "overshoot", "sprout": "simple",
                      "level_limit": 6, "gsc": "melimit", "free_lscs": True, "allow_cutoff": False, "hibernation": False, "dim": (2, 3)})
            p.pop("gscs", None)
        if idx % 16 in (5, 13):
            # result caching switched on, box bounds that use the full mantissa, engines that land exactly on a face (CMA-ES' bound
            # repair, L-BFGS-B's projection): a cache key / canonicalisation of the point must not move what the objective is given
            p.update({"leaf": _cycle(["cma", "cma_warm", "cma_stds"] if idx % 16 == 13 else ["local", "local_maxiter"], idx // 16), "fams": ["face", "linear"], "levels": [2, 2, 3], "box": "fullprec", "cached": True, "free_lscs": True, "allow_cutoff": False,
                      "root": _cycle(["sea", "de", "shade", "lhs"], idx // 16)})
        if idx % 16 == 15:
            p = {"kind": "minimize", "box": p["box"], "fams": p["fams"], "dim": (2, 5), "same_callable_two_boxes": bool((idx // 16) % 2)}
        return p

    def make_case(self, seed, idx, tier):
        d = super().make_case(seed, idx, tier)
        if idx % 16 == 4 and d.get("kind") == "tree" and len(d["levels"]) == 2:
            narrow = [(-0.001, 0.001), (0.0, 0.002), (-0.002, 0.0005)][(idx // 16) % 3]
            d["box"] = {"cls": "needle", "bounds": [[-5.0, 5.0], list(narrow)]}
            d["levels"][0].update({"pop": 12, "lsc": {"k": "dontstop"}, "mutation_std": 0.5} if d["levels"][0]["engine"] == "sea" else {"pop": 12, "lsc": {"k": "dontstop"}})
            d["levels"][1].update({"pop": 16, "sample_std": 1.0, "lsc": {"k": "melimit", "n": 1}, "gens": 1})
            if "mutation_std" in d["levels"][1]:
                d["levels"][1]["mutation_std"] = 0.0005
            d["sprout"]["far"] = 1e-5
            d["gsc"] = {"k": "melimit", "n": 5}
            d["options"].pop("log_level", None)
        if idx % 16 == 9 and d.get("kind") == "tree" and len(d["levels"]) == 2 and d["levels"][1]["engine"] == "ga":
            rmin = min(b[1] - b[0] for b in d["box"]["bounds"])
            d["levels"][0].update({"pop": 20, "gens": 40, "lsc": {"k": "dontstop"}})
            d["levels"][1].update({"pop": 12, "gens": 4, "p_mutation": 0.1, "p_crossover": 0.9, "sample_std": rmin * 0.01, "lsc": {"k": "melimit", "n": 6}, "k_elites": 1})
            d["levels"][1].pop("election_group_size", None)
            d["sprout"]["far"] = 0.0
            d["gsc"] = {"k": "melimit", "n": 12}
            d["options"].pop("log_level", None)
            if d["obj"]["fam"] == "linear":
                d["obj"]["w"] = [-abs(w) if not d["maximize"] else abs(w) for w in d["obj"]["w"]]  # optimum in the upper corner
        if idx % 16 in (5, 13) and d.get("kind") == "tree":
            d["use_cache"] = True
        if idx % 16 == 3 and d.get("kind") == "tree" and d["levels"][-1]["engine"].startswith("local"):
            d["levels"][-1]["method"] = "l-bfgs-b"
        if idx % 16 in (11, 13) and d.get("kind") == "tree" and d["levels"][-1]["engine"] in CMA_ENGINES:
            d["levels"][-1]["gens"] = 25
            d["levels"][-1]["lsc"] = {"k": "dontstop"}
            d["gsc"] = {"k": "melimit", "n": 14}
            d["options"].pop("log_level", None)
        if idx % 16 == 7 and d.get("kind") == "tree":
            # a used configuration deep-copied and pointed at a problem over another box (see harness.run_retarget_pair)
            rng = gen.case_rng(self.prop, seed, idx, "retarget")
            sh = rng.choice([-0.6, -0.35, 0.35, 0.6])  # same scale, shifted: neither box contains the other
            d["second_box"] = {"cls": d["box"]["cls"] + "-shifted", "bounds": [[b[0] + sh * (b[1] - b[0]), b[1] + sh * (b[1] - b[0])] for b in d["box"]["bounds"]]}
            d["entry"] = "tree"
        return d

    def floors(self, tier):
        fl = [(f"engine.{e}", 1, "engine of the quantifier on some level") for e in ROOT_ENGINES + CMA_ENGINES + LEAF_ONLY]
        fl += [(f"box.{b}", 1, "box class") for b in gen.BOX_CLASSES]
        fl += [("C01.on_face.LocalDeme metaepoch", 1, "a local search touched a face"), ("C01.evals_checked", 1000, "evaluations observed")]
        fl += [("C01.cma_deme_ended_by_cma_es_own_stop_with_the_distribution_mean_outside_the_box", 2, "CMA deme that ran to CMA-ES' own termination with its distribution mean outside the box")]
        fl += [("C01.within_1e-12_of_a_face_with_result_cache.CMADeme metaepoch", 1, "CMA-ES evaluated a point within 1e-12 of a face of a full-precision box with result caching on"),
               ("C01.within_1e-12_of_a_face_with_result_cache.LocalDeme metaepoch", 1, "a local search evaluated a point within 1e-12 of a face of a full-precision box with result caching on")]
        fl += [("C01.ga_style_deme_evaluations_with_a_coordinate_exactly_on_a_face_of_a_decimal_box", 50, "evaluations of a GA-style deme with a coordinate exactly on a face of a box with decimal bounds (5.12, 0.9, ...)")]
        fl += [("C01.individuals_sampled_around_a_seed_with_a_width_500_times_a_side_of_the_box", 100, "individuals of sprouted populations sampled with a width >= 500 x the narrowest side of the box")]
        fl += [("C01.local_search_evaluations_in_a_box_narrower_than_a_derivative_step", 30, "evaluations of local searches in boxes narrower than 1.5e-8")]
        fl += [("C01.local_deme_sprouted_from_a_seed_with_infinite_fitness", 2, "local search sprouted from a seed whose objective value is infinite")]
        fl += [("local_method_name_in_lower_case", 2, "local level whose method name is given in lower case")]
        fl += [("retargeted_configurations_completed", 2, "trees built from a deep-copied, re-targeted configuration"), ("minimize_after_same_callable_on_another_box", 1, "minimize() of a callable that was minimised over another box before")]
        return fl


@register
class C02(RunSpec):
    prop = "C02"
    rule = (
        "seeded random tree configurations; every stored individual re-evaluated exactly at every boundary, every recorded "
        "generation digested and re-verified later; non-trivial/distinct = distinct (engine, operator pipeline) for which a "
        "generation held both carried-over and newly evaluated individuals"
    )
    monitors = (_mon("C02Truth"),)
    sizes = {"quick": 160, "thorough": 18000}

    def profile(self, rng, idx, tier):
        p = {"dim": (2, 4)}
        p["root"] = _cycle(ROOT_ENGINES, idx)
        p["leaf"] = _cycle(ALL_LEAVES + ["local", "local_maxiter"], idx, 1)
        p["fams"] = ["rastrigin", "funnel", "sphere", "absv", "plateau", "linear", "face"]
        p["levels"] = [2, 2, 3, 1]
        p["boxes"] = ["sym", "asym", "decimal", "mixed"]
        if idx % 10 == 6:
            # local searches that make no iteration at all (flat region), in both directions
            p.update({"fams": ["plateau", "constant", "plateau"], "leaf": _cycle(["local", "local_maxiter"], idx // 10), "levels": [2, 3], "maximize": bool((idx // 10) % 2)})
        if idx % 10 == 5:
            # crossover without any mutation (p_mutation = 0): children of the crossover are new points, whatever the mutation step does or skips
            p.update({"root": _cycle(["sea_cx", "ga"], idx // 10), "leaf": _cycle(["ga", "sea_cx", "sea"], idx // 10), "levels": [1, 2, 2], "fams": ["rastrigin", "sphere", "funnel"], "crossover_only": True})
        if idx % 10 == 9:
            # one objective per level (the documentation's "less accurate model on the upper levels"): a child evaluates its copy of the
            # sprout seed with *its* level's objective
            p.update({"shared": False, "stacks": False, "levels": [2, 3, 3], "leaf": _cycle(["sea", "de", "shade", "cma", "sea_cx"], idx // 10), "inner": _cycle(["sea", "de", "shade"], idx // 10),
                      "per_level_objectives": True})
        if idx % 10 == 1:
            # objectives whose return type is not always a python float: an integer literal on one branch, integer counts, float32
            # scalars (a batch evaluation must not size its buffer from the first value it sees)
            p.update({"fam": _cycle(["intpen", "intval", "f32", "intpen"], idx // 10), "root": _cycle(["sea", "de", "shade", "ga", "mwea", "de_dither"], idx // 10), "stacks": bool((idx // 10) % 2)})
        if idx % 8 == 7:
            p = {"kind": "minimize", "fams": p["fams"], "dim": (2, 4)}
            if idx % 16 == 15:
                p["fams"] = ["intval", "intpen"]
        return p

    def make_case(self, seed, idx, tier):
        d = super().make_case(seed, idx, tier)
        if idx % 10 == 5 and d.get("kind") == "tree":
            for lv in d["levels"]:
                if lv["engine"] in ("sea_cx", "ga"):
                    lv.update({"p_mutation": 0.0, "p_crossover": 0.9})
        if idx % 10 == 9 and d.get("kind") == "tree" and not d.get("shared") and len(d["levels"]) >= 2:
            d["level_shift"] = [0.0, 0.125, -0.25][: len(d["levels"])]
        if idx % 10 == 3 and d.get("kind") == "tree":
            # two trees, one after the other in one process, on *different* objectives with result caching switched on
            # (FunctionProblem(use_cache=True)), same seed / box / engines: a benchmark loop over several functions
            rng = gen.case_rng(self.prop, seed, idx, "cache")
            d["use_cache"] = True
            if (idx // 10) % 2:
                # a microscopic box: distinct genomes that differ only far below 1e-9 (keys of the result cache must not merge them)
                d["box"] = {"cls": "micro", "bounds": [[-1e-10, 1e-10] for _ in d["box"]["bounds"]]}
                for lv in d["levels"]:
                    for k_ in ("sample_std", "mutation_std", "mutation_std_step", "sigma0"):
                        if isinstance(lv.get(k_), float):
                            lv[k_] = 2e-10 * rng.choice([0.05, 0.2])
                if d["sprout"].get("far"):
                    d["sprout"]["far"] = 1e-11
                for f_ in d["sprout"].get("dfilters", []):
                    if f_.get("k") == "far":
                        f_["d"] = 1e-11
            elif (idx // 10) % 4 == 0:
                # a box of ordinary width a million away from zero: distinct genomes agree in their leading 20 bits and differ in the
                # low-order ones only (keys of the result cache must keep the full double precision)
                base = 2.0**20 + rng.uniform(0.0, 1.0)
                d["box"] = {"cls": "faraway", "bounds": [[base, base + 1.0] for _ in d["box"]["bounds"]]}
                for lv in d["levels"]:
                    for k_ in ("sample_std", "mutation_std", "sigma0"):
                        if isinstance(lv.get(k_), float):
                            lv[k_] = rng.choice([0.05, 0.2])
                    if isinstance(lv.get("mutation_std_step"), float):
                        lv["mutation_std_step"] = 0.01
                if d["sprout"].get("far"):
                    d["sprout"]["far"] = 0.1
                for f_ in d["sprout"].get("dfilters", []):
                    if f_.get("k") == "far":
                        f_["d"] = 0.1
                d["cached_problem_on_a_box_far_from_zero"] = True
            d["options"]["random_seed"] = rng.randint(0, 10**6)
            other = rng.choice([f for f in gen.FAMILIES if f != d["obj"]["fam"] and f != "constant"])
            d["second_objective"] = gen.gen_objective(rng, len(d["box"]["bounds"]), other)
        return d

    def run_case(self, desc):
        res = super().run_case(desc)
        if desc.get("second_objective"):
            d2 = dict(desc)
            d2["obj"] = desc["second_objective"]
            d2.pop("second_objective")
            r2 = super().run_case(d2)
            res["cov"].update(r2["cov"])
            res["cov"]["C02.cached_problem_pairs"] += 1
            for v in r2["violations"]:
                v = dict(v)
                v["detail"] = dict(v.get("detail", {}), second_cached_problem_in_the_same_process=True)
                res["violations"].append(v)
        return res

    def floors(self, tier):
        return [
            ("C02.runs_on_an_objective_with_mixed_return_types", 3, "runs in which the objective returned values of more than one type"),
            ("C02.objective_returned_a_value_of_type.int", 50, "objective values returned as python int"),
            ("C02.objective_returned_a_value_of_type.float32", 50, "objective values returned as numpy float32"),
            ("C02.crossover_without_mutation_levels", 5, "levels running SEAWithCrossover / GAStyleSEA with p_mutation = 0"),
            ("C02.individuals_reevaluated_with_their_own_level_s_objective", 200, "stored individuals of trees with one objective per level, re-evaluated with their own level's objective"),
            ("cached_problem_on_a_box_far_from_zero", 2, "runs on a cached problem whose box lies a million away from zero (genomes differ in low-order bits only)"),
            ("C02.cached_problem_pairs", 3, "pairs of cached problems with different objectives in one process"),
            ("C02.local_deme_with_3_iterates", 1, "local deme with >=3 recorded iterates"),
            ("C02.generations_with_carried_and_new", 1, "generation with carried-over individuals"),
            ("C02.sentinel_seen", 1, "sentinel values stored"),
            ("C02.generation_digests_reverified", 100, "digests re-verified"),
        ]


@register
class C03(RunSpec):
    prop = "C03"
    reuse_every = 6
    rule = (
        "seeded random tree configurations and minimize(maxfun=N) calls; counters compared with the recorder at every GSC "
        "consultation; distinct non-trivial = distinct (engine mix, stack shape) with >=10 consultations at which >=2 demes had non-zero counts"
    )
    monitors = (_mon("C03Counts"),)
    sizes = {"quick": 200, "thorough": 24000}

    def profile(self, rng, idx, tier):
        p = {"dim": (2, 4)}
        p["root"] = _cycle(ROOT_ENGINES, idx)
        p["leaf"] = _cycle(ALL_LEAVES, idx, 1)
        p["gscs"] = ["fevals", "evals", "melimit", "fevals"]
        p["levels"] = [2, 2, 3, 1]
        if idx % 10 == 5:
            p["log_level"] = _cycle(["info", "debug"], idx // 10)  # nothing computed for a log message may call the objective
        if idx % 10 == 8:
            # an objective with a hard +-inf penalty zone behind a cutoff wrapper that never runs out: genuine infinite values are
            # evaluations like any other
            p.update({"fam": "penalty", "root": _cycle(["sea", "de", "lhs", "sobol", "ga"], idx // 10), "leaf": _cycle(["sea", "de", "de_dither", "sea_cx"], idx // 10),
                      "levels": [1, 2], "stacks": False, "gscs": ["melimit", "evals"], "boxes": ["sym", "asym"], "penalty_cutoff": True})
        if idx % 10 == 2:
            # local searches that make no iteration at all (flat objective): whatever the deme does then must still be counted
            p.update({"fams": ["plateau", "constant", "plateau"], "leaf": _cycle(["local", "local_maxiter"], idx // 10), "levels": [2, 3], "allow_cutoff": False})
        if idx % 10 == 9:
            # an objective with infinite values (a pit in which it is infinitely good, or a +inf penalty) and a local search sprouted from a
            # parent whose best point has such a value: scipy's arithmetic breaks down there and proposes non-finite iterates, about which the
            # objective is never asked - scipy's own nfev then differs from the calls made
            p.update({"fam": _cycle(["pit", "pit", "penalty"], idx // 10), "root": _cycle(["sea", "de", "lhs", "ga"], idx // 10), "leaf": _cycle(["local", "local_maxiter"], idx // 10),
                      "n_levels": 2, "stacks": False, "sprout": "simple", "gscs": ["melimit"], "boxes": ["sym", "asym"], "allow_cutoff": False, "free_lscs": True, "dim": (2, 3)})
            p.pop("levels", None)
        if idx % 7 == 6:
            p = {"kind": "minimize", "dim": (2, 4), "budget": "both" if idx % 28 == 13 else "maxfun", "vertex_collapse": idx % 21 == 20}
        return p

    def make_case(self, seed, idx, tier):
        d = super().make_case(seed, idx, tier)
        if idx % 10 == 8 and d.get("kind") == "tree" and d["obj"]["fam"] == "penalty" and not d.get("reuse"):
            for lv in d["levels"]:
                lv["stack"] = ["cutoff:1000000"]
        if idx % 10 == 9 and idx % 7 != 6 and d.get("kind") == "tree" and d["obj"]["fam"] in ("pit", "penalty") and d["levels"][-1]["engine"] in ("local", "local_maxiter"):
            d["local_search_below_a_parent_on_an_objective_with_infinite_values"] = True
        return d

    def floors(self, tier):
        fl = [("objective.penalty", 3, "objective with a hard infinite penalty zone"), ("log_level.verbose", 5, "runs at log level info / debug")]
        fl += [(f"C03.inside_metaepoch.{c}", 1, "consultation inside a metaepoch") for c in ("EADeme", "DEDeme", "SHADEDeme", "CMADeme", "LHSDeme", "SobolDeme")]
        fl += [
            ("engine.local", 1, "local deme"),
            ("C03.cutoff_exhausted_seen", 1, "budget exhausted"),
            ("C03.minimize_nfev_checked", 1, "minimize runs"),
            ("C03.minimize_with_both_limits_whose_maxiter_metaepochs_would_cost_more_than_maxfun", 2, "minimize(maxfun=N, maxiter=M) runs that spent the whole evaluation budget"),
            ("C03.minimize_runs_with_5_or_more_repeated_points", 1, "minimize() runs in which the objective was called >= 5 times at a point it had been called at before"),
            ("local_search_below_a_parent_on_an_objective_with_infinite_values", 5, "local levels below a parent on an objective with infinite values (pit / penalty)"),
            ("C03.local_deme_without_any_iteration", 2, "local deme whose search made no iteration"),
        ]
        return fl


@register
class C04(RunSpec):
    prop = "C04"
    rule = (
        "seeded random tree configurations in both directions plus minimize() runs and same-seed budget pairs N1<N2; "
        "distinct non-trivial = distinct (engine mix, direction) whose best improved at >=2 boundaries, plus budget pairs whose logs differ in length"
    )
    monitors = (_mon("C04Best"),)
    sizes = {"quick": 180, "thorough": 10800}

    def profile(self, rng, idx, tier):
        p = {"dim": (2, 4)}
        p["root"] = _cycle(ROOT_ENGINES, idx)
        p["leaf"] = _cycle(ALL_LEAVES, idx, 1)
        p["maximize"] = bool(idx % 2)
        p["fams"] = ["rastrigin", "funnel", "sphere", "absv", "plateau", "linear", "face", "plateau", "offset"]
        if idx % 3 == 1:
            # steadily converging runs: the best-ever value is typically first observed in the very last generations,
            # which is where an evaluated-but-not-recorded generation (or a stale best) becomes visible
            conv = ["de", "shade", "sea", "de_dither", "sea_cx", "cma", "mwea"]
            p["root"] = _cycle(conv[:5], idx // 3)
            p["leaf"] = _cycle(conv, idx // 3, 2)
            p["inner"] = _cycle(conv[:4], idx // 3, 3)
            p["fams"] = ["sphere", "absv", "face", "linear", "sphere"]
            p["lscs"] = ["dontstop"]
            p["gscs"] = ["melimit", "evals", "fevals"]
            p["levels"] = [1, 2, 2, 3]
            p["boxes"] = ["sym", "asym", "decimal"]
            p["stacks"] = False
        if idx % 10 == 8:
            # verbose levels: whatever is computed for log messages must stay a pure read (CMA-ES leaves on a bowl: any "free" look at the
            # centre of a population would beat every sample)
            p.update({"log_level": _cycle(["info", "debug"], idx // 10), "leaf": _cycle(["cma", "cma_warm"], idx // 10), "fams": ["sphere", "absv"], "levels": [2],
                      "gscs": ["melimit"], "lscs": ["dontstop"], "stacks": False, "root": _cycle(["sea", "de", "lhs"], idx // 10)})
        if idx % 20 == 11:
            # an objective that is infinite in the good direction somewhere: the best must still be reported as such
            p = {"dim": (2, 2), "n_levels": 1, "root": _cycle(["sea", "de", "lhs", "sobol", "ga", "de_dither"], idx // 20), "fam": "pit",
                 "maximize": bool((idx // 20) % 2), "gscs": ["melimit"], "stacks": False, "boxes": ["sym", "asym"]}
        if idx % 6 == 5:
            p = {"kind": "minimize", "dim": (2, 4), "pair": True}
        return p

    def make_case(self, seed, idx, tier):
        d = super().make_case(seed, idx, tier)
        if idx % 4 == 2 and d.get("kind") == "tree":
            d["peek_best_at_every_consultation"] = True
        return d

    def run_case(self, desc):
        if desc.get("pair"):
            from .monitors.twins import run_budget_pair

            return run_budget_pair(desc)
        return super().run_case(desc)

    def floors(self, tier):
        return [
            ("direction.max", 10, "maximisation runs"),
            ("C04.best_read_inside_a_metaepoch", 100, "reads of the best accessors from inside a metaepoch (as a user-defined stop condition does)"),
            ("C04.best_ever_not_in_any_current_population", 1, "best-ever individual no longer in any current population"),
            ("C04.budget_pairs", 1, "budget pairs"),
            ("objective.pit", 2, "objective with good-direction infinite values"),
            ("log_level.verbose", 5, "runs at log level info / debug"),
            ("C04.best_ever_first_observed_around_first_true", 10, "runs whose best-ever value was first observed in the last generations before / after the GSC became true"),
        ]


@register
class C05(RunSpec):
    prop = "C05"
    reuse_every = 9
    rule = (
        "seeded random tree configurations over every shipped global stop condition, limits placed so that the first 'true' "
        "falls after varied generations of varied demes; distinct non-trivial = distinct (GSC class, engine of the in-flight deme or boundary kind, demes still to run)"
    )
    monitors = (_mon("C05Stop"),)
    sizes = {"quick": 220, "thorough": 12000}

    def profile(self, rng, idx, tier):
        p = {"dim": (2, 3), "max_pop": 12}
        p["gsc"] = _cycle(gen.GSC_KINDS, idx)
        p["root"] = _cycle(ROOT_ENGINES, idx, 8)
        p["leaf"] = _cycle(ALL_LEAVES, idx, 1)
        p["levels"] = [2, 2, 3, 3, 1]
        p["level_limit"] = rng.randint(2, 4)
        if p["gsc"] == "precision" and (idx // 8) % 2:
            # an optimum value far from zero with a precision far below 1e-9 of its magnitude (f_opt = 1e9, eps = 1e-4): the rule is absolute
            p["fam"] = "offset"
        if p["gsc"] == "fevals" and (idx // 8) % 3 == 0:
            p["levels"] = [2, 3]
        if idx % 10 == 3:
            # AllStopped with hibernation: the state "every awake deme has stopped, a sleeping one is still active" must not count as stopped
            p.update({"gsc": "allstopped", "hibernation": True, "n_levels": 2, "sprout": _cycle(["nbc", "simple", "nbc"], idx // 10), "level_limit": 2,
                      "root": _cycle(["sea", "de", "shade"], idx // 10), "leaf": _cycle(["sea", "cma", "de"], idx // 10), "fams": ["sphere", "rastrigin"], "free_lscs": True})
        if idx % 10 == 7:
            # wind-down with several generations per metaepoch: first-true is placed (pilot-then-target) inside a metaepoch, so the
            # demes still to run - the root at least - start a metaepoch configured for >= 2 generations with the GSC already true
            p.update({"gsc": "evals", "seeded_p": 1.0, "levels": [2, 2, 3], "hibernation": False, "free_lscs": True, "lscs": ["dontstop"], "allow_cutoff": False,
                      "root": _cycle(["shade", "de", "sea", "ga", "mwea", "de_dither"], idx // 10), "leaf": _cycle(["cma", "shade", "cma_warm", "sea", "cma", "de"], idx // 10), "inner": _cycle(["de", "shade", "sea"], idx // 10), "level_limit": 4,
                      "multi_generation_wind_down": True})
        if idx % 9 == 8:
            # (reuse pair) stop conditions must not carry anything over from the first tree: demes that stop, ids that repeat
            p["gsc"] = _cycle(["fevals", "evals", "fevals", "nononroot", "allstopped", "fevals"], idx // 9)
            p["lscs"] = ["melimit", "user", "melimit"]
            p["levels"] = [2, 3]
        if idx % 11 == 10:
            p = {"kind": "minimize", "dim": (2, 3), "budget": rng.choice(["maxfun", "maxiter"])}
        return p

    def make_case(self, seed, idx, tier):
        d = super().make_case(seed, idx, tier)
        rng = gen.case_rng(self.prop, seed, idx, "target")
        if d.get("kind") == "tree" and idx % 10 == 3 and not d.get("reuse") and d["gsc"]["k"] == "allstopped":
            d["levels"][0]["lsc"] = {"k": "melimit", "n": 12}
            d["levels"][1]["lsc"] = {"k": "melimit", "n": 1 + (idx // 10) % 2}
        if d.get("reuse") and d["gsc"]["k"] == "fevals" and len(d["levels"]) >= 2 and d["sprout"].get("gen", {}).get("k") != "nbclocal":
            # the stop-condition object (and the mechanism, and the root level) first serve a lower tree, then the full one
            d["first_tree_root_only"] = True
        if d.get("kind") == "tree" and idx % 10 == 7 and not d.get("reuse") and d["gsc"]["k"] == "evals":
            for lv in d["levels"]:
                if "gens" in lv:
                    lv["gens"] = max(2, min(lv["gens"], 4))
        if d.get("kind") == "tree" and idx % 5 == 2:
            d["rerun"] = True
            d["entry"] = "tree"
        if d.get("kind") == "tree" and idx % 5 == 4 and not d.get("reuse"):
            d["steps_before_run"] = 1 + (idx // 5) % 3
            d["entry"] = "tree"
        if d.get("kind") == "tree" and d["gsc"]["k"] in ("evals", "fevals") and d["options"].get("random_seed") is not None:
            # pilot-then-target: the limit is chosen (in run_case) so that first-true falls on a chosen consultation
            d["target"] = {"frac": round(rng.random(), 3), "prefer_inside": rng.random() < 0.8}
        return d

    def run_case(self, desc):
        from . import harness

        if desc.get("reuse"):
            return run_desc(desc, lambda: [m() for m in self.monitors])
        if desc.get("target"):
            desc = self._retarget(desc)
        ctx = harness.run_case(desc, [m() for m in self.monitors])
        res = run_result(ctx, desc)
        if desc.get("target"):
            res["cov"]["C05.targeted_runs"] += 1
            ft = ctx.first_true
            if ft is not None and desc["target"].get("want_gsc_index") == ft[0]:
                res["cov"]["C05.targeted_runs_hit_the_chosen_consultation"] += 1
            elif not ctx.aborted:
                res["cov"]["C05.targeted_runs_missed_the_chosen_consultation"] += 1
        return res

    @staticmethod
    def _retarget(desc):
        """Pilot run of the same seeded descriptor with a far-away limit records the (weighted) evaluation count at
        every consultation; the real run's limit is then set to the count at a chosen consultation."""
        import copy

        from . import harness

        pilot = copy.deepcopy(desc)
        pilot["gsc"]["n"] = 10**9
        w = pilot["gsc"].get("w", "equal") if pilot["gsc"]["k"] == "fevals" else "equal"
        nl = len(pilot["levels"])
        weights = [1] * nl if w in ("equal", None) else ([1] + [0] * (nl - 1) if w == "root" else list(w))

        class Pilot:
            ctx = None

            def __init__(self):
                self.rows = []

            def on_gsc(self, tree, verdict, kind, deme):
                c = sum(weights[d.level] * d.n_evaluations for lvl in tree.levels for d in lvl)
                self.rows.append((self.ctx.n_gsc, kind, c))

        pm = Pilot()
        pctx = harness.Ctx(pilot, [pm], gsc_cap=400)
        harness.scramble_rng(pilot.get("np_seed", 0))
        import warnings

        with warnings.catch_warnings():
            warnings.simplefilter("ignore")
            with harness.activate(pctx):
                try:
                    cfg = harness.build_config(pilot, pctx)
                    from pyhms.tree import DemeTree

                    t = DemeTree(cfg)
                    t.run()
                except harness.WatchdogAbort:
                    pass
                except harness.HarnessError:
                    raise
                except Exception:
                    pass
        rows = [r for r in pm.rows if r[2] > 0]
        d = copy.deepcopy(desc)
        if len(rows) < 3:
            d["target"] = None
            return d
        cand = [r for r in rows if r[1] == "deme"] if desc["target"]["prefer_inside"] else rows
        cand = cand or rows
        pick = cand[int(desc["target"]["frac"] * len(cand)) % len(cand)]
        # first consultation at which the count reaches the picked value
        first = next(r for r in rows if r[2] >= pick[2])
        d["gsc"]["n"] = int(pick[2]) if float(pick[2]).is_integer() else pick[2]
        d["target"]["want_gsc_index"] = first[0]
        return d

    def floors(self, tier):
        fl = [(f"C05.gsc_true.{g}", 1, "GSC class seen true") for g in gen.GSC_KINDS]
        fl += [("C05.gsc_consulted_while_only_sleeping_demes_are_active", 2, "GSC consulted while every awake deme has stopped and a sleeping one is still active")]
        fl += [("reruns_of_a_finished_tree", 5, "run() called again on a finished tree"), ("explicit_steps_before_run", 5, "runs carried out in pieces (run_step() calls, then run())")]
        fl += [(f"C05.metaepoch_entered_after_true_with_2_or_more_generations_configured.{e}", 1, "wind-down of an engine configured for >= 2 generations per metaepoch") for e in ("EADeme", "DEDeme", "SHADEDeme", "CMADeme")]
        fl += [("C05.precision_gsc_with_precision_far_below_the_optimum_s_magnitude", 20, "precision GSC consulted with a precision below 1e-9 * |optimum|"),
               ("C05.fevals_root_weighting_given_as_plain_string_consulted_with_child_demes", 5, "FitnessEvalLimitReached(weights='root' as a plain string) consulted on a tree with child demes")]
        fl += [("first_tree_of_a_reuse_pair_built_from_the_root_level_only", 3, "reuse pairs whose first tree is lower than the second (same stop-condition object)")]
        fl += [("C05.targeted_runs_hit_the_chosen_consultation", 3, "pilot-then-target placements that hit the chosen consultation")]
        fl += [
            ("C05.first_true_inside_with_2_to_run", 1, "first-true inside a metaepoch with >=2 demes still to run"),
            ("C05.first_true_at_boundary", 1, "first-true at a boundary"),
            ("C05.first_true_before_first_step", 1, "first-true before the first step"),
        ]
        return fl


@register
class C06(RunSpec):
    prop = "C06"
    reuse_every = 8
    soak_every = 25
    rule = (
        "seeded random tree configurations over every local stop condition (incl. user-defined and DontRun), CMA-ES leaves "
        "driven to internal termination; distinct non-trivial = distinct (deme class, deactivation cause)"
    )
    monitors = (_mon("C06Life"),)
    sizes = {"quick": 180, "thorough": 27000}

    def profile(self, rng, idx, tier):
        p = {"dim": (2, 3)}
        p["root"] = _cycle(ROOT_ENGINES, idx)
        p["leaf"] = _cycle(ALL_LEAVES, idx, 1)
        p["levels"] = [2, 2, 3, 1]
        p["gscs"] = ["melimit", "melimit", "evals", "allstopped", "rootstopped"]
        p["hibernation_p"] = 0.3
        if idx % 10 == 1:
            # three levels with hibernation: sleeping demes sit in the middle of the run order
            p.update({"n_levels": 3, "hibernation": True, "sprout": _cycle(["simple", "nbc", "custom"], idx // 10), "gscs": ["melimit"],
                      "lscs": ["dontstop", "dontstop", "melimit"], "inner": _cycle(["sea", "de", "shade", "cma"], idx // 10),
                      "root": _cycle(["sea", "de", "lhs", "shade", "sobol"], idx // 10), "level_limit": 3 + (idx // 10) % 2,
                      "fams": ["rastrigin", "funnel", "rastrigin"], "boxes": ["sym", "asym"], "max_pop": 16})
        if idx % 10 == 4:
            # local searches sprouted from mid-level demes that have just finished (local-method generator), one problem object per level
            p.update({"n_levels": 3, "leaf": "local", "shared": False, "sprout": "custom", "gscs": ["melimit"], "lscs": ["melimit"],
                      "inner": _cycle(["cma", "sea", "de"], idx // 10), "stacks": False, "nbclocal": True, "hibernation": False})
        if idx % 10 == 5:
            # CMA-ES children whose per-coordinate widths are estimated from the parent's population (set_stds), under a parent that only
            # selects (p_mutation = 0): its population collapses to copies of a few points, the estimate in some coordinate is zero
            p.update({"n_levels": 2, "root": _cycle(["sea", "ga", "sea_cx"], idx // 10), "leaf": "cma_stds", "hibernation": False, "level_limit": 2, "gscs": ["melimit"],
                      "sprout": "simple", "free_lscs": True, "fams": ["rastrigin", "sphere"], "boxes": ["sym", "asym", "mixed"], "stacks": False, "dim": (2, 3)})
        if idx % 10 == 9:
            # adaptive mutation (its width grows with the metaepochs since the deme last sprouted) on a deme that sleeps for a long time and
            # is then woken by a sprout: it has to advance like any other awake deme
            p.update({"n_levels": 2, "root": "sea_adapt", "leaf": _cycle(["sea", "de", "cma"], idx // 10), "hibernation": True, "level_limit": 1, "gscs": ["melimit"],
                      "sprout": "simple", "free_lscs": True, "fams": ["rastrigin", "funnel"], "boxes": ["sym", "asym"], "stacks": False})
        if idx % 10 == 3:
            # one problem object for all levels, a parent that stops by its own condition while children that consist of a single
            # individual (the sprout seed) keep running: whatever the child evaluates must be booked on the child, not on its stopped parent
            p.update({"n_levels": 2, "shared": True, "leaf": _cycle(["sea", "sea_adapt", "sea"], idx // 10), "root": _cycle(["sea", "de", "shade", "cma_never"][:3], idx // 10),
                      "gscs": ["melimit"], "free_lscs": True, "hibernation": False, "sprout": _cycle(["simple", "nbc"], idx // 10), "one_individual_children": True})
        if idx % 8 == 7:
            # (reuse pair, see reuse_every) stateless-looking stop conditions must stay stateless across trees
            p["lscs"] = ["steady", "steady", "melimit", "children"]
            p["gscs"] = ["melimit"]
            p["fams"] = ["rastrigin", "sphere", "funnel"]
        if idx % 10 == 7:
            # local searches that scipy cuts short (maxiter of 1 or 2 on a multimodal objective): one-shot all the same
            p.update({"n_levels": 2, "leaf": "local_maxiter", "fams": ["rastrigin", "funnel", "rastrigin"], "dim": (3, 5), "gscs": ["melimit"],
                      "root": _cycle(["sea", "de", "lhs", "shade"], idx // 10), "local_cut_short": True})
        if idx % 6 == 0:
            # CMA-ES run to internal termination: flat objective, tiny sigma
            p["leaf"] = "cma"
            p["fam"] = rng.choice(["constant", "plateau"])
            p["levels"] = [2]
            p["cma_tiny"] = True
        return p

    def make_case(self, seed, idx, tier):
        d = super().make_case(seed, idx, tier)
        rng = gen.case_rng(self.prop, seed, idx, "post")
        if idx % 10 == 1 and d["gsc"]["k"] == "melimit":
            d["gsc"]["n"] = 12
            rmin = min(b[1] - b[0] for b in d["box"]["bounds"])
            if d["sprout"]["k"] == "simple":
                d["sprout"]["far"] = rmin * rng.choice([0.03, 0.08])
            if "pop" in d["levels"][0]:
                d["levels"][0]["pop"] = max(d["levels"][0]["pop"], 12)
        if idx % 10 == 7 and d["levels"][-1]["engine"] == "local_maxiter":
            d["levels"][-1]["maxiter"] = 1 + (idx // 10) % 2
            if d["gsc"]["k"] == "melimit":
                d["gsc"]["n"] = max(d["gsc"]["n"], 5)
        if idx % 10 == 4 and len(d["levels"]) == 3 and d["levels"][-1]["engine"] == "local":
            d["sprout"] = {"k": "custom", "gen": {"k": "nbclocal", "df": 2.0, "trunc": 1.0}, "dfilters": [{"k": "demelimit", "n": 2}],
                           "tfilters": [{"k": "levellimit", "n": 4}], "ll": 4}
            d["levels"][0]["lsc"] = {"k": "dontstop"}
            d["levels"][1]["lsc"] = {"k": "melimit", "n": rng.randint(1, 3)}
            d["gsc"] = {"k": "melimit", "n": 9}
        if idx % 10 == 5 and len(d["levels"]) == 2 and d["levels"][1]["engine"] == "cma_stds" and not d.get("reuse") and not d.get("soak"):
            rmin = min(b[1] - b[0] for b in d["box"]["bounds"])
            d["levels"][0].update({"pop": 8, "gens": 2, "p_mutation": 0.0, "k_elites": 1, "lsc": {"k": "dontstop"}})
            d["levels"][0].pop("election_group_size", None)
            d["levels"][1]["lsc"] = {"k": "melimit", "n": 1 + (idx // 10) % 2}
            d["levels"][1]["gens"] = 2
            d["sprout"]["far"] = rmin * 1e-6
            d["gsc"] = {"k": "melimit", "n": 22}
        if idx % 10 == 9 and len(d["levels"]) == 2 and d["levels"][0]["engine"] == "sea_adapt" and not d.get("reuse") and not d.get("soak"):
            rmin = min(b[1] - b[0] for b in d["box"]["bounds"])
            d["levels"][0].update({"mutation_std": rmin * 0.05, "mutation_std_step": rmin * 0.01, "lsc": {"k": "dontstop"}})
            d["levels"][0].pop("mutation_std_array", None)
            d["levels"][1]["lsc"] = {"k": "melimit", "n": 8 + (idx // 10) % 4}  # the root sleeps 8-11 metaepochs: longer than mutation_std / mutation_std_step
            d["sprout"]["far"] = rmin * 0.02
            d["options"]["hibernation"] = True
            d["gsc"] = {"k": "melimit", "n": 30}
        if idx % 10 == 3 and len(d["levels"]) == 2 and d["levels"][1]["engine"] in ("sea", "sea_adapt") and not d.get("reuse") and not d.get("soak"):
            d["levels"][1].update({"pop": 1, "k_elites": 1, "lsc": {"k": "dontstop"}})
            d["levels"][1].pop("election_group_size", None)
            d["levels"][0]["lsc"] = {"k": "melimit", "n": 2 + (idx // 10) % 2}
            d["gsc"] = {"k": "melimit", "n": 8}
        if idx % 10 == 6 and d.get("kind") == "tree" and not d.get("reuse") and not d.get("soak"):
            d["entry"] = "hand"
            d["hand_steps"] = 4 + (idx // 10) % 5
            d["gsc"] = {"k": "evals", "n": 10**9}
        if d.get("reuse") and d["gsc"]["k"] == "melimit":
            d["gsc"]["n"] = max(d["gsc"]["n"], 7)
            for lv in d["levels"]:
                if lv["lsc"]["k"] == "steady":
                    lv["lsc"]["dev"] = rng.choice([1e-3, 1e-2, 1e-1])
        if idx % 6 == 0 and d["levels"][-1]["engine"] == "cma":
            d["levels"][-1]["lsc"] = {"k": "dontstop"}
            d["levels"][-1]["gens"] = 6
            d["gsc"] = {"k": "melimit", "n": rng.randint(10, 16)}
        return d

    def floors(self, tier):
        return [
            ("C06.cause.lsc", 1, "deactivation by LSC"),
            ("C06.cause.gsc", 1, "deactivation by GSC"),
            ("C06.cause.engine", 1, "engine self-termination"),
            ("C06.deactivation.CMADeme.engine", 1, "CMA-ES internal stop"),
            ("C06.cma_deme_with_estimated_widths_ran_after_being_sprouted_from_a_collapsed_parent_population", 3, "CMA-ES deme (set_stds) that ran a metaepoch after being sprouted from a parent population with zero spread in some coordinate"),
            ("C06.adaptive_mutation_deme_ran_after_sleeping_longer_than_std_over_step", 3, "a deme with adaptive mutation ran again after sleeping more metaepochs than mutation_std / mutation_std_step"),
            ("C06.stopped_parent_rechecked_while_its_one_individual_child_on_the_same_problem_object_ran", 5, "stopped parent re-checked while a one-individual child sharing its problem object ran"),
            ("C06.stopped_deme_observed_3_later_metaepochs", 1, "stopped deme observed over >=3 later metaepochs"),
            ("hand_driven_metaepochs", 10, "metaepochs driven by hand through run_metaepoch() / run_sprout()"),
            ("C06.hibernating_deme_ahead_of_an_awake_one_in_run_order", 3, "a sleeping deme ahead of an awake one in the run order"),
            ("C06.local_search_cut_short_by_its_iteration_limit", 5, "local searches stopped by their iteration limit (maxiter) rather than by convergence"),
            ("C06.local_deme_sprouted_from_a_stopped_parent", 2, "local deme sprouted from a stopped mid-level deme"),
            ("C06.lsc_verdicts_compared_with_documented_rule", 50, "LSC verdicts compared with the documented rule"),
        ]


@register
class C07(RunSpec):
    prop = "C07"
    reuse_every = 7
    soak_every = 25
    rule = (
        "seeded random tree configurations of 1-3 levels incl. the custom deme class and user-composed mechanisms; "
        "distinct non-trivial = distinct tree shapes (multiset of (level, parent id, engine)) observed at boundaries"
    )
    monitors = (_mon("C07Structure"),)
    sizes = {"quick": 180, "thorough": 18000}

    def profile(self, rng, idx, tier):
        p = {"dim": (2, 3)}
        p["root"] = _cycle(ROOT_ENGINES + ["custom", "custom_ea", "custom_ea2"], idx)
        p["leaf"] = _cycle(ALL_LEAVES + ["custom", "custom_ea", "custom_ea2"], idx, 1)
        p["inner"] = _cycle(INNER_ENGINES + ["custom", "custom_ea", "custom_ea2"], idx, 2)
        p["levels"] = [2, 3, 3, 1]
        p["gscs"] = ["melimit", "evals"]
        p["entry"] = "tree"
        if idx % 10 == 5:
            # SkipSameSprout in a three-level tree whose level-1 demes all have children (the filter walks sibling parents' child lists)
            p.update({"n_levels": 3, "root": _cycle(["sea", "de", "shade"], idx // 10), "inner": _cycle(["sea", "de"], idx // 10), "leaf": _cycle(["sea", "cma", "de"], idx // 10),
                      "sprout": "custom", "level_limit": 3, "lscs": ["dontstop"], "gsc": "melimit", "fams": ["rastrigin", "funnel"], "hibernation": False, "skipsame3": True})
        if idx % 10 == 9:
            # many short-lived demes: two-digit ids and id suffixes, levels that fill up and empty again and again
            p.update({"n_levels": 2 + (idx // 10) % 2, "root": _cycle(["sea", "de", "lhs"], idx // 10), "inner": "sea", "leaf": _cycle(["sea", "de", "cma"], idx // 10),
                      "sprout": "simple", "level_limit": 4, "lscs": ["melimit"], "root_lsc": "dontstop", "gsc": "melimit", "max_pop": 8, "max_gens": 1,
                      "fams": ["rastrigin"], "boxes": ["sym"], "hibernation": False, "dim": (2, 2)})
        if idx % 10 == 7:
            # terraced objective in a three-level tree: candidates of different parents tie exactly, the level limit has to cut
            p.update({"n_levels": 3, "fam": "plateau", "root": _cycle(["sea", "de", "sea_cx", "lhs"], idx // 10), "inner": _cycle(["sea", "de", "shade"], idx // 10),
                      "leaf": _cycle(["de", "sea", "cma"], idx // 10), "sprout": "simple", "level_limit": 3, "lscs": ["melimit", "user"], "root_lsc": "dontstop",
                      "gsc": "melimit", "boxes": ["sym", "asym"], "hibernation": False})
        if idx % 10 == 3:
            # adaptive mutation (its step depends on the deme's own clock) on non-leaf levels, with hibernation and slots that free up
            p.update({"n_levels": 3, "root": "sea_adapt", "inner": "sea_adapt", "leaf": _cycle(["sea", "de", "cma", "shade"], idx // 10), "hibernation": True,
                      "level_limit": 2 + (idx // 10) % 2, "lscs": ["melimit", "user"], "root_lsc": "dontstop", "gsc": "melimit",
                      "sprout": _cycle(["simple", "nbc", "simple"], idx // 10), "fams": ["rastrigin", "funnel"], "boxes": ["sym", "asym"]})
        return p

    def make_case(self, seed, idx, tier):
        d = super().make_case(seed, idx, tier)
        if idx % 10 == 2 and d.get("kind") == "tree" and not d.get("reuse"):
            # the tree is built with the library's default options / default class mapping after *another* default-built configuration had its
            # options and its class mapping adjusted in place
            d["options"] = {}
            d["after_someone_elses_config"] = True
            d["entry"] = "tree"
        if idx % 10 == 1 and d.get("kind") == "tree" and any(lv["engine"] in SEA_FAMILY + ["mwea"] for lv in d["levels"]):
            d["override_builtin_ea"] = True  # config_class_to_deme_class = {EALevelConfig: <user's EADeme subclass>}
            d["entry"] = "tree"
        if idx % 10 == 5 and d.get("kind") == "tree" and len(d["levels"]) == 3 and not d.get("reuse"):
            rmin = min(b[1] - b[0] for b in d["box"]["bounds"])
            d["sprout"] = {"k": "custom", "gen": {"k": "best"}, "dfilters": [{"k": "far", "d": rmin * 0.03, "ord": 2}],
                           "tfilters": [{"k": "levellimit", "n": 3}, {"k": "skipsame"}], "ll": 3}
            d["gsc"] = {"k": "melimit", "n": 9}
        if idx % 10 == 9 and d.get("kind") == "tree" and not d.get("reuse"):
            d["gsc"] = {"k": "melimit", "n": 30}
            d["sprout"]["far"] = min(b[1] - b[0] for b in d["box"]["bounds"]) * 0.01
            for lv in d["levels"][1:]:
                lv["lsc"] = {"k": "melimit", "n": 1 + (idx // 10) % 2}
            d["levels"][0]["lsc"] = {"k": "dontstop"}
        if idx % 10 == 7 and d.get("kind") == "tree" and not d.get("reuse"):
            d["gsc"] = {"k": "melimit", "n": 12}
            d["obj"]["q"] = 4.0
            d["sprout"]["far"] = min(b[1] - b[0] for b in d["box"]["bounds"]) * 0.02
            d["levels"][1]["lsc"] = {"k": "dontstop"}
            if (idx // 10) % 2 and len(d["levels"]) == 3:
                # ... with the level limit alone (no distance filter): up to four parents offer their best, short-lived leaves keep freeing
                # two or three slots, so the cut regularly falls between candidates of different parents that tie
                d["sprout"] = {"k": "custom", "gen": {"k": "best"}, "dfilters": [], "tfilters": [{"k": "levellimit", "n": 4}], "ll": 4}
                d["levels"][2]["lsc"] = {"k": "user", "salt": idx, "num": 1, "den": 3}  # leaves stop at staggered (pseudo-random) times
                d["levels"][0]["lsc"] = {"k": "dontstop"}
                d["gsc"] = {"k": "melimit", "n": 20}
                d["obj"]["q"] = [12.0, 40.0, 120.0][(idx // 20) % 3]  # (how often the cut falls between tied candidates of different parents is
                # a statistic here - C07.level_limit_cut_and_kept_tied_... -, the direct filter checks of C10 construct that case)
        if idx % 10 == 3 and d.get("kind") == "tree" and not d.get("reuse"):
            d["gsc"] = {"k": "melimit", "n": 14}
            d["levels"][0]["lsc"] = {"k": "dontstop"}
            d["levels"][1]["lsc"] = {"k": "dontstop"}
            d["levels"][2]["lsc"] = {"k": "melimit", "n": 2}
            if d["sprout"]["k"] == "simple":
                d["sprout"]["far"] = min(b[1] - b[0] for b in d["box"]["bounds"]) * 0.05
        return d

    def floors(self, tier):
        return [
            ("C07.tree_with_12_or_more_demes", 1, "tree with two-digit deme ids"),
            ("C07.round_with_tied_candidates_from_different_parents", 3, "round in which candidates of different parents tie exactly"),
            ("C07.adaptive_mutation_deme_woke_up", 2, "a deme with adaptive mutation went through a sleep-wake cycle"),
            ("C07.three_level_tree_two_sprouting_parents", 1, "3-level tree with >=2 sprouting parents on level 1"),
            ("C07.round_creating_2_children", 1, "round creating >=2 children"),
            ("C07.deme_of_a_level_whose_built_in_config_class_is_mapped_to_a_user_deme_class", 5, "demes of levels whose built-in config class the user mapped to a deme class of their own"),
            ("runs_after_another_default_built_config_was_adjusted_in_place", 5, "trees built with default options / class mapping after another default-built config was adjusted in place"),
            ("C07.custom_deme_class_seen.custom", 1, "custom deme class registered for a new config class"),
            ("C07.custom_deme_class_seen.custom_ea", 1, "custom deme class registered for a new config class derived from a built-in one"),
            ("C07.custom_deme_class_seen.custom_ea2", 1, "custom deme class registered for a config class derived from another registered custom config class"),
            ("C07.seeds_checked", 20, "seeds checked"),
        ]


@register
class C08(RunSpec):
    prop = "C08"
    reuse_every = 6
    soak_every = 25
    rule = (
        "seeded random tree configurations with level limits 1-4, several parents and several candidates per parent, LSCs "
        "that free slots; distinct non-trivial = distinct (active census before the round, L, candidates offered) at which a round had to cut"
    )
    monitors = (_mon("C08LevelLimit"),)
    sizes = {"quick": 200, "thorough": 24000}

    def profile(self, rng, idx, tier):
        p = {"dim": (2, 3)}
        p["root"] = _cycle(POP_ENGINES + ["lhs"], idx)
        p["leaf"] = _cycle(ALL_LEAVES, idx, 1)
        p["inner"] = _cycle(POP_ENGINES, idx, 2)
        p["levels"] = [2, 3, 3]
        p["level_limit"] = 1 + idx % 4
        p["sprout"] = _cycle(["custom", "nbc", "custom", "simple"], idx)
        p["lscs"] = ["user", "melimit", "dontstop", "user"]
        p["gscs"] = ["melimit"]
        p["fams"] = ["rastrigin", "funnel", "plateau", "sphere"]
        p["hibernation_p"] = 0.5  # sleeping demes are still active and occupy their slot
        if idx % 10 == 4:
            # a user-written filter that hands the candidates on in another order (best parents first, levels interleaved) ahead of
            # LevelLimit, three levels, several candidates per parent
            p.update({"n_levels": 3, "leaf": _cycle(["sea", "de", "cma"], idx // 10), "inner": _cycle(["sea", "de"], idx // 10), "root": _cycle(["sea", "de", "shade"], idx // 10),
                      "sprout": "custom", "hibernation": False, "level_limit": 2 + (idx // 10) % 3, "gsc": "melimit", "fams": ["rastrigin", "funnel"], "free_lscs": True})
        if idx % 10 == 6:
            # the local-method generator offers candidates for parents that have just *stopped*; leaves that stay active keep their slots
            p.update({"n_levels": 3, "leaf": _cycle(["cma", "sea", "de"], idx // 10), "inner": _cycle(["cma", "sea"], idx // 10), "sprout": "custom", "hibernation": False,
                      "level_limit": 2, "gsc": "melimit"})
        return p

    def make_case(self, seed, idx, tier):
        d = super().make_case(seed, idx, tier)
        if idx % 10 == 4 and d.get("kind") == "tree" and len(d["levels"]) == 3 and not d.get("reuse") and not d.get("soak"):
            L = 2 + (idx // 10) % 3
            rmin = min(b[1] - b[0] for b in d["box"]["bounds"])
            d["sprout"] = {"k": "custom", "gen": {"k": "nbc", "df": 1.0, "trunc": 1.0}, "dfilters": [{"k": "far", "d": rmin * 0.02, "ord": 2}, {"k": "demelimit", "n": 2}, {"k": "userreorder"}],
                           "tfilters": [{"k": "levellimit", "n": L}], "ll": L}
            d["levels"][0]["lsc"] = {"k": "dontstop"}
            d["levels"][1]["lsc"] = {"k": "dontstop"}
            d["levels"][2]["lsc"] = {"k": "melimit", "n": 1 + (idx // 10) % 2}
            for lv in d["levels"][:2]:
                if "pop" in lv:
                    lv["pop"] = max(lv["pop"], 10)
            d["gsc"] = {"k": "melimit", "n": 10}
        if idx % 10 == 6 and d.get("kind") == "tree" and len(d["levels"]) == 3 and not d.get("reuse") and not d.get("soak"):
            d["sprout"] = {"k": "custom", "gen": {"k": "nbclocal", "df": 1.0, "trunc": 1.0}, "dfilters": [{"k": "demelimit", "n": 2}], "tfilters": [{"k": "levellimit", "n": 2}], "ll": 2}
            d["levels"][0]["lsc"] = {"k": "dontstop"}
            d["levels"][1]["lsc"] = {"k": "melimit", "n": 2}
            d["levels"][2]["lsc"] = {"k": "dontstop"}
            d["gsc"] = {"k": "melimit", "n": 12}
        return d

    def floors(self, tier):
        return [
            ("C08.rounds_cut_with_2_parents", 1, "round with more candidates than free slots and >=2 parents"),
            ("C08.slot_refilled", 1, "slot freed and re-filled"),
            ("C08.level_full_seen", 1, "level full at a census"),
            ("C08.level_full_with_a_hibernating_deme", 1, "level full while one of its demes hibernates"),
            ("C08.level_limit_handed_candidates_whose_parents_of_one_level_are_not_adjacent", 3, "LevelLimit called with a candidates dict in which the parents of one level are not adjacent"),
        ]


@register
class C09(RunSpec):
    prop = "C09"
    reuse_every = 5
    rule = (
        "seeded random tree configurations with FarEnough / NBC_FarEnough mechanisms, long enough that siblings move after "
        "their centroid was first read; distinct non-trivial = distinct (sibling engine, filter, moved-more-than-threshold yes/no) with >=1 decision"
    )
    monitors = (_mon("C09Distance"),)
    sizes = {"quick": 180, "thorough": 18000}

    def profile(self, rng, idx, tier):
        p = {"dim": (2, 3)}
        p["root"] = _cycle(POP_ENGINES + ["lhs", "sobol"], idx)
        p["leaf"] = _cycle(["sea", "de", "shade", "cma", "local", "cma_warm", "sea_cx", "de_dither"], idx, 1)
        p["inner"] = _cycle(["sea", "de", "shade", "cma"], idx, 2)
        p["levels"] = [2, 2, 3]
        p["sprout"] = _cycle(["simple", "nbc", "custom"], idx)
        p["gscs"] = ["melimit"]
        p["lscs"] = ["dontstop", "melimit", "user"]
        p["level_limit"] = rng.randint(2, 4)
        p["fams"] = ["rastrigin", "funnel", "sphere", "linear"]
        if idx % 6 == 2:
            p["allow_nbc_k1"] = True  # truncation may keep a single individual: the mean nearest-better distance is then undefined
            p["max_pop"] = 6
        if idx % 4 == 3:
            # three levels, several mid-level parents converging into the same basin: their candidates come close to
            # leaves sprouted by *other* parents, which is what the filter has to look at (whole target level)
            p["n_levels"] = 3
            p["fams"] = ["sphere", "face", "absv"]
            p["root"] = _cycle(["sea", "de", "shade", "sea_cx"], idx // 4)
            p["inner"] = _cycle(["sea", "de", "shade", "cma"], idx // 4, 2)
            p["sprout"] = _cycle(["simple", "custom"], idx // 4)
            p["level_limit"] = rng.randint(3, 4)
            p["lscs"] = ["dontstop"]
        if idx % 10 in (1, 7) and idx % 4 != 3 and idx % 6 != 2:
            # distances in a norm other than the Euclidean one, in 6-8 dimensions, with many siblings: which sibling is "nearest" depends
            # on the norm, and every considered deme counts - not only the (Euclidean-)nearest one
            p.update({"dim": (6, 8), "n_levels": 2, "root": _cycle(["sea", "de", "sea_cx"], idx // 10), "leaf": _cycle(["sea", "cma", "de"], idx // 10), "sprout": "custom",
                      "level_limit": 8, "lscs": ["dontstop"], "fams": ["rastrigin", "funnel"], "boxes": ["sym"], "free_lscs": True, "hibernation": False, "stacks": False})
        return p

    def make_case(self, seed, idx, tier):
        d = super().make_case(seed, idx, tier)
        if d["gsc"]["k"] == "melimit":
            d["gsc"]["n"] = max(d["gsc"]["n"], 6)
        if idx % 10 in (1, 7) and idx % 4 != 3 and idx % 6 != 2 and d.get("kind") == "tree" and not d.get("reuse"):
            rmin = min(b[1] - b[0] for b in d["box"]["bounds"])
            o = ["inf", 1, "inf", 3][(idx // 10) % 4]
            thr = rmin * {"inf": 0.12, 1: 0.45, 3: 0.2}[o]
            d["sprout"] = {"k": "custom", "gen": {"k": "nbc", "df": 0.5, "trunc": 1.0}, "dfilters": [{"k": "far", "d": thr, "ord": o}, {"k": "demelimit", "n": 5}],
                           "tfilters": [{"k": "levellimit", "n": 10}], "ll": 10}
            d["levels"][0]["pop"] = 24
            d["levels"][0]["lsc"] = {"k": "dontstop"}
            d["levels"][1]["lsc"] = {"k": "melimit", "n": 2 + (idx // 10) % 2}  # slots keep freeing: sprouting goes on through the whole run
            d["levels"][1]["gens"] = 1
            d["gsc"] = {"k": "melimit", "n": 16}
        if d.get("reuse") and idx % 10 == 4 and d.get("kind") == "tree" and len(d["levels"]) >= 2:
            # (reuse pair) the stock NBC mechanism - whose distance filter also looks at *finished* demes - serves two trees one after the
            # other: what it knows about the first tree's finished demes must not be used for the second tree's demes of the same id
            d["sprout"] = {"k": "nbc", "gdf": 1.0, "trunc": 1.0, "fdf": 1.5, "ll": 4}
            d["levels"][0]["lsc"] = {"k": "dontstop"}
            for lv in d["levels"][1:]:
                lv["lsc"] = {"k": "melimit", "n": 2}
            d["gsc"] = {"k": "melimit", "n": 10}
        if idx % 6 == 2 and idx % 4 != 3:
            # truncation keeps exactly one individual of every (small) non-leaf population
            for lv in d["levels"][:-1]:
                if "pop" in lv:
                    lv["pop"] = min(lv["pop"], 6)
            if d["sprout"]["k"] == "nbc":
                d["sprout"]["trunc"] = 0.3
            elif d["sprout"]["k"] == "custom":
                d["sprout"]["gen"] = {"k": "nbc", "df": 2.0, "trunc": 0.3}
                d["sprout"]["dfilters"] = [{"k": "nbcfar", "f": 2.0, "ord": 2, "active": False}]
            else:
                d["sprout"] = {"k": "nbc", "gdf": 2.0, "trunc": 0.3, "fdf": 2.0, "ll": d["sprout"]["ll"]}
        if idx % 4 == 3:
            rmin = min(b[1] - b[0] for b in d["box"]["bounds"])
            d["gsc"] = {"k": "melimit", "n": 10}
            if d["sprout"]["k"] == "simple":
                d["sprout"]["far"] = rmin * 0.1
            else:
                d["sprout"]["gen"] = {"k": "best"}
                d["sprout"]["dfilters"] = [{"k": "far", "d": rmin * 0.1, "ord": 2}]
        return d

    def floors(self, tier):
        fl = [(f"C09.sibling_moved_more_than_threshold.{c}", 1, "sibling moved by more than the threshold") for c in ("EADeme", "DEDeme", "SHADEDeme", "CMADeme")]
        fl += [
            ("C09.accepted.far", 1, "seed accepted by FarEnough"),
            ("C09.accepted.nbcfar", 1, "seed accepted by NBC_FarEnough"),
            ("C09.rejected.FarEnough", 1, "seed rejected by FarEnough"),
            ("C09.rejected.NBC_FarEnough", 1, "seed rejected by NBC_FarEnough"),
            ("C09.candidates_whose_nearest_sibling_depends_on_the_norm", 100, "candidates handed to a distance filter with a non-Euclidean norm whose nearest considered deme differs between that norm and the Euclidean one"),
            ("C09.candidates_rejected_only_because_of_a_sibling_that_is_not_the_euclidean_nearest", 5, "candidates that are too close (in the configured norm) to a considered deme other than their Euclidean-nearest one, which itself is far enough"),
            ("C09.second_tree_of_a_reuse_pair_filtered_against_finished_demes", 5, "NBC_FarEnough applied in the second tree of a reuse pair while finished demes exist on the target level"),
            ("C09.nbc_mean_distance_not_finite", 1, "round in which truncation kept a single individual (undefined threshold)"),
        ]
        return fl


GEN_POP = SEA_FAMILY + ["mwea", "de", "de_dither", "shade"]


@register
class C11(RunSpec):
    prop = "C11"
    rule = (
        "seeded random tree configurations over every population engine with 1-4 generations per metaepoch; history joined "
        "with the time-stamped call log + parents handed to each engine; distinct non-trivial = distinct (engine, generations per metaepoch, root/sprouted) "
        "with an intra-metaepoch pair containing both carried and new individuals"
    )
    monitors = (_mon("C11Breeding"),)
    sizes = {"quick": 180, "thorough": 36000}

    def profile(self, rng, idx, tier):
        p = {"dim": (2, 3), "allow_cutoff": False}
        p["root"] = _cycle(GEN_POP + ["lhs", "sobol"], idx)
        p["leaf"] = _cycle(GEN_POP + CMA_ENGINES, idx, 1)
        p["levels"] = [2, 2, 1]
        p["gscs"] = ["melimit", "evals"]
        p["lscs"] = ["dontstop", "melimit"]
        return p

    def make_case(self, seed, idx, tier):
        d = super().make_case(seed, idx, tier)
        rng = gen.case_rng(self.prop, seed, idx, "post")
        for lv in d["levels"]:
            if "gens" in lv and rng.random() < 0.8:
                lv["gens"] = rng.randint(2, 4)
        return d

    def floors(self, tier):
        fl = []
        for e in GEN_POP + CMA_ENGINES:
            fl.append((f"C11.pairs.{e}.intra", 50 if tier == "thorough" else 10, "intra-metaepoch generation pairs"))
            fl.append((f"C11.pairs.{e}.cross", 50 if tier == "thorough" else 10, "cross-metaepoch generation pairs"))
        for k in ("sea", "mwea", "de", "shade", "cma"):
            fl.append((f"C11.engine_in.{k}", 1, "engine entry tap active"))
        return fl


@register
class C12(RunSpec):
    prop = "C12"
    rule = (
        "seeded random tree configurations with plateau / constant / multimodal objectives in both directions, small and odd "
        "population sizes; distinct non-trivial = distinct (engine, direction, k_elites, generations) with >=1 strict improvement and >=1 unchanged best"
    )
    monitors = (_mon("C12Elitism"),)
    sizes = {"quick": 200, "thorough": 36000}

    def profile(self, rng, idx, tier):
        p = {"dim": (2, 3)}
        p["root"] = _cycle(GEN_POP, idx)
        p["leaf"] = _cycle(GEN_POP + CMA_ENGINES, idx, 1)
        p["levels"] = [2, 1, 2]
        p["maximize"] = bool((idx // 8) % 2)  # independent of the root cycle (period 8) and the leaf cycle (period 11)
        p["fams"] = ["plateau", "constant", "rastrigin", "sphere", "plateau", "funnel", "tinyval", "offset"]
        p["gscs"] = ["melimit", "evals"]
        p["lscs"] = ["dontstop", "melimit"]
        if idx % 10 == 4:
            p["fam"] = "tinyval"
            p["root"] = _cycle(SEA_FAMILY, idx // 10)
        if idx % 10 == 5:
            # MWEA with committees of 2-4 and population sizes that are not multiples of the committee size
            p.update({"root": "mwea", "leaf": _cycle(["mwea", "sea", "de"], idx // 10), "levels": [1, 2], "fams": ["rastrigin", "sphere", "funnel"]})
        if idx % 10 == 9:
            # the sampling demes are population-based too: every generation has the configured size, whatever the size (Sobol' with a
            # size that is not a power of two, LHS with any)
            p.update({"root": _cycle(["sobol", "lhs"], idx // 10), "leaf": _cycle(["sobol", "lhs", "sea", "de"], idx // 10, 2), "levels": [1, 2, 2], "sampler_sizes": True})
        if idx % 10 == 7:
            # boundary sizes of the elitist selection: a population of one individual with (explicit) k_elites = 1, and k_elites = pop_size
            p.update({"root": _cycle(SEA_FAMILY, idx // 10), "leaf": _cycle(SEA_FAMILY, idx // 10, 2), "levels": [1, 2], "fams": ["rastrigin", "sphere", "funnel", "plateau"], "elite_boundary": True})
        return p

    def make_case(self, seed, idx, tier):
        d = super().make_case(seed, idx, tier)
        rng = gen.case_rng(self.prop, seed, idx, "post")
        for lv in d["levels"]:
            if "gens" in lv and rng.random() < 0.7:
                lv["gens"] = rng.randint(2, 4)
            if "pop" in lv and rng.random() < 0.5 and lv["engine"] not in ("mwea", "shade"):
                lv["pop"] = rng.choice([4, 5, 7, 9])
        if idx % 10 == 5 and d.get("kind") == "tree":
            for lv in d["levels"]:
                if lv["engine"] == "mwea":
                    k_, pop_ = [(3, 7), (2, 9), (3, 10), (4, 13), (2, 5), (4, 9), (3, 13)][(idx // 10) % 7]
                    lv.update({"k_elites": k_, "pop": pop_, "election_group_size": max(k_, min(pop_, 6))})
        if idx % 10 == 9 and d.get("kind") == "tree":
            for lv in d["levels"]:
                if lv["engine"] in ("sobol", "lhs"):
                    lv["pop"] = rng.choice([5, 6, 10, 12, 20, 24, 48, 9, 33])
        if idx % 10 == 7 and d.get("kind") == "tree":
            lv = d["levels"][-1]
            if lv["engine"] in SEA_FAMILY:
                lv.pop("election_group_size", None)
                if (idx // 10) % 2 == 0:
                    lv.update({"pop": 1, "k_elites": 1})
                else:
                    lv["pop"] = rng.choice([4, 5, 6, 7])
                    lv["k_elites"] = lv["pop"] + rng.choice([0, 0, 1])
                if len(d["levels"]) == 1 and d["sprout"].get("k") == "nbc":
                    pass
        return d

    def floors(self, tier):
        fl = [("objective.tinyval", 5, "objective with values of the order 1e-12")]
        fl.append(("C12.generations_of_a_sobol_deme_whose_size_is_not_a_power_of_two", 5, "generations of a Sobol' deme with a size that is not a power of two"))
        fl.append(("C12.generations_of_an_lhs_deme", 5, "generations of an LHS deme"))
        fl.append(("C12.generations_of_an_mwea_deme_whose_size_is_not_a_multiple_of_its_committee_size", 20, "generations of an MWEA deme whose population size is not a multiple of its committee size (k_elites >= 2)"))
        for dr in ("min", "max"):
            fl.append((f"C12.pairs_of_a_single_individual_population.{dr}", 5, "generation pairs of an elitist SEA population of one individual"))
            fl.append((f"C12.pairs_with_every_parent_an_elite.{dr}", 5, "generation pairs with k_elites >= population size"))
        for e in SEA_FAMILY + ["de", "de_dither", "shade"]:
            for dr in ("min", "max"):
                fl.append((f"C12.pairs.{e}.{dr}", 100 if tier == "thorough" else 20, "generation pairs per elitist engine and direction"))
                fl.append((f"C12.intra_pairs.{e}.{dr}", 20 if tier == "thorough" else 4, "intra-metaepoch pairs"))
        return fl


@register
class C18(RunSpec):
    prop = "C18"
    reuse_every = 8
    soak_every = 25
    rule = (
        "seeded random 2- and 3-level tree configurations with hibernation on (and off as control), both mechanisms, level limits "
        "that fill up and LSCs that free slots; distinct non-trivial = distinct (height, mechanism, engine of the sleeper) with >=1 sleep->wake cycle"
    )
    monitors = (_mon("C18Hibernation"),)
    sizes = {"quick": 220, "thorough": 15000}

    def profile(self, rng, idx, tier):
        p = {"dim": (2, 3)}
        p["root"] = _cycle(POP_ENGINES + ["lhs", "sobol"], idx)
        p["leaf"] = _cycle(ALL_LEAVES, idx, 1)
        p["inner"] = _cycle(POP_ENGINES + CMA_ENGINES, idx, 2)
        p["levels"] = [2, 3, 3]
        p["hibernation"] = (idx % 5) != 4
        p["tiny_leaf_p"] = 0.3  # (1+1)-style leaves: the whole child evolution goes through one individual's problem wrapper
        p["sprout"] = _cycle(["simple", "nbc", "custom", "simple"], idx)
        p["gscs"] = ["melimit", "melimit", "evals", "fevals"]
        p["level_limit"] = rng.randint(1, 3)
        p["lscs"] = ["melimit", "user", "dontstop", "melimit"]
        if idx % 10 == 8:
            # a one-individual child on the *same* problem object as its parent, the parent asleep while the child runs
            p.update({"n_levels": 2, "leaf": _cycle(["sea", "sea_cx", "ga", "sea_adapt"], idx // 10), "shared": True, "hibernation": True, "sprout": "simple", "level_limit": 1,
                      "lscs": ["dontstop"], "gscs": ["melimit"], "stacks": False, "tiny_leaf_p": 1.0})
        if idx % 10 == 2:
            # local-method generator with hibernation: active demes of the last-but-one level are never offered while they run
            p.update({"n_levels": 3, "leaf": "local", "sprout": "custom", "hibernation": True, "inner": _cycle(["cma", "sea", "de"], idx // 10), "gscs": ["melimit"]})
        return p

    def make_case(self, seed, idx, tier):
        d = super().make_case(seed, idx, tier)
        if idx % 10 == 2 and len(d["levels"]) == 3 and d["levels"][-1]["engine"].startswith("local") and not d.get("reuse") and not d.get("soak"):
            d["sprout"] = {"k": "custom", "gen": {"k": "nbclocal", "df": 2.0, "trunc": 1.0}, "dfilters": [{"k": "demelimit", "n": 2}], "tfilters": [{"k": "levellimit", "n": 3}], "ll": 3}
            d["levels"][1]["lsc"] = {"k": "melimit", "n": 3}
        if idx % 10 == 8 and len(d["levels"]) == 2 and not d.get("reuse") and not d.get("soak"):
            d["levels"][-1]["pop"] = 1
            d["levels"][-1]["k_elites"] = 1
            d["sprout"]["far"] = 1e-9
        if d["gsc"]["k"] == "melimit":
            d["gsc"]["n"] = max(d["gsc"]["n"], 8)
        if idx % 10 == 9 and d.get("kind") == "tree" and not d.get("reuse") and not d.get("soak"):
            # hibernation left at its default (off) in a tree built after another default-built configuration switched it on for itself
            d["options"] = {}
            d["after_someone_elses_config"] = True
            d["entry"] = "tree"
        if idx % 10 == 4 and d.get("kind") == "tree" and not d.get("reuse") and not d.get("soak"):
            # rounds driven by hand through the public run_metaepoch() / run_sprout(), the tree's metaepoch counter left where it is
            # (every second case advances it the way run_step() would): the hibernation rule is about rounds, not about the counter
            d["entry"] = "hand"
            d["hand_steps"] = 7 + (idx // 10) % 4
            d["hand_bump"] = bool((idx // 10) % 2)
            d["options"]["hibernation"] = True
            d["gsc"] = {"k": "evals", "n": 10**9}
        if idx % 10 == 6 and len(d["levels"]) == 3 and not d.get("reuse") and not d.get("soak"):
            # pilot-then-target: an evaluation limit that is crossed *inside* a sprouting round in which two parents sprout
            rng = gen.case_rng(self.prop, seed, idx, "target")
            d["options"]["hibernation"] = True
            d["options"]["random_seed"] = rng.randint(0, 10**6)
            d["gsc"] = {"k": "evals", "n": 10**9}
            d["levels"][0]["lsc"] = {"k": "dontstop"}
            d["levels"][1]["lsc"] = {"k": "dontstop"}
            d["target_round"] = True
        return d

    def run_case(self, desc):
        if desc.get("target_round"):
            desc = self._retarget_round(desc)
        res = super().run_case(desc)
        if desc.get("target_round") == "placed":
            res["cov"]["C18.limit_placed_inside_a_round_with_two_parents"] += 1
        return res

    @staticmethod
    def _retarget_round(desc):
        import copy
        import warnings

        from . import harness

        class Pilot:
            ctx = None

            def __init__(self):
                self.rounds = []
                self.cur = None

            def on_sprout_seeds(self, tree, seeds):
                owner = {id(ind): p.id for p, c in seeds.items() for ind in c.individuals}
                self.cur = {"E0": sum(d.n_evaluations for lvl in tree.levels for d in lvl), "owner": owner, "children": []}

            def on_init(self, deme, start, end):
                if self.cur is not None and deme.level > 0:
                    self.cur["children"].append((self.cur["owner"].get(id(deme._sprout_seed)), end - start))

            def on_sprout_end(self, tree, seeds):
                if self.cur is not None:
                    self.rounds.append(self.cur)
                self.cur = None

        pilot = copy.deepcopy(desc)
        pilot["gsc"] = {"k": "melimit", "n": 12}
        pm = Pilot()
        pctx = harness.Ctx(pilot, [pm], gsc_cap=3000)
        harness.scramble_rng(pilot.get("np_seed", 0))
        with warnings.catch_warnings():
            warnings.simplefilter("ignore")
            with harness.activate(pctx):
                try:
                    from pyhms.tree import DemeTree

                    DemeTree(harness.build_config(pilot, pctx)).run()
                except harness.HarnessError:
                    raise
                except Exception:
                    pass
        d = copy.deepcopy(desc)
        for r in pm.rounds:
            parents = [p for p, _ in r["children"]]
            if len(set(parents)) >= 2:
                first = parents[0]
                n_first = sum(n for p, n in r["children"] if p == first)
                if n_first >= 1:
                    d["gsc"] = {"k": "evals", "n": int(r["E0"] + n_first)}
                    d["target_round"] = "placed"
                    return d
        d["gsc"] = {"k": "melimit", "n": 8}
        d["target_round"] = "no-suitable-round"
        return d

    def floors(self, tier):
        return [
            ("runs_after_another_default_built_config_was_adjusted_in_place", 5, "trees built with default options after another default-built config switched hibernation on in place"),
            ("C18.flag_rule_checked_in_a_round_driven_by_hand", 20, "hibernation flag rule checked after a round driven by hand (counter advanced as run_step() would)"),
            ("C18.flag_rule_checked_in_a_round_driven_by_hand_with_the_counter_left_alone", 20, "... and with the tree's metaepoch counter left where it is"),
            ("C18.sleeping_parent_with_running_one_individual_child_on_shared_problem", 3, "sleeping parent whose one-individual child (same problem object) is running"),
            ("C18.limit_placed_inside_a_round_with_two_parents", 1, "evaluation limit crossed inside a sprouting round in which two parents sprout"),
            ("C18.flag_rule_checked.sleep.root", 1, "root put to sleep"),
            ("C18.flag_rule_checked.sleep.intermediate", 1, "intermediate deme put to sleep"),
            ("C18.wake.root", 1, "root woken"),
            ("C18.wake.intermediate", 1, "intermediate deme woken"),
            ("C18.deme_asleep_3_consecutive_steps", 1, "deme asleep over >=3 consecutive steps"),
            ("C18.eval_based_gsc_reached_with_hibernation", 1, "evaluation-based GSC reached with hibernation on"),
            ("C18.fresh_deme_flag_checked_intermediate", 1, "freshly created intermediate deme"),
        ]


def run_repo_tests_under_taps(prop):
    """Workload 3: the repository's own tests executed with contract-style taps (vlib/pytest_taps.py) - 55 more
    executions for the oracles to watch.  Zero evaluations of a contract => reported, never 'held' by itself."""
    import json as _json
    import os
    import subprocess
    import tempfile

    from . import env

    out = tempfile.mktemp(prefix="taps-", suffix=".json", dir=env.scratch_root())
    envv = dict(os.environ)
    envv["VERIF_TAPS_OUT"] = out
    envv["PYTHONPATH"] = env.VERIF_DIR + os.pathsep + envv.get("PYTHONPATH", "")
    envv["VERIF_REPO"] = env.REPO
    cov = Counter()
    viols = []
    try:
        p = subprocess.run(
            [env.PYTHON, "-m", "pytest", "-q", "-p", "no:cacheprovider", "-p", "vlib.pytest_taps", "--timeout=900", "-x"],
            cwd=env.REPO, env=envv, capture_output=True, text=True, timeout=600,
        )
        cov["repo_tests_under_taps.sessions"] += 1
        if os.path.exists(out):
            data = _json.load(open(out))
            os.unlink(out)
            for k, v in data["counts"].items():
                cov["repo_tests_under_taps." + k] += v
            viols = [v for v in data["violations"] if v["property"] == prop]
            cov["repo_tests_under_taps.exitstatus_%d" % data["exitstatus"]] += 1
        else:
            cov["repo_tests_under_taps.no_result_file"] += 1
    except subprocess.TimeoutExpired:
        cov["repo_tests_under_taps.timeout"] += 1
    return {"violations": viols, "cov": cov, "nontrivial": [], "sample": {"workload": "repository tests under taps", "counts": {k: v for k, v in cov.items()}}}


class DirectSpec(Spec):
    """Direct calls of pure components on generated / adversarial inputs, compared with a reference model."""

    module = None
    repo_tests_case = None  # case index that runs the repository's tests under taps (thorough tier)

    def _mod(self):
        import importlib

        return importlib.import_module(f"vlib.monitors.{self.module}")

    def make_case(self, seed, idx, tier):
        if tier == "thorough" and self.repo_tests_case is not None and idx == self.repo_tests_case:
            return {"kind": "repo_tests_under_taps", "idx": idx}
        return self._mod().make_case(seed, idx, tier)

    def run_case(self, desc):
        from . import env

        if desc.get("kind") == "repo_tests_under_taps":
            return run_repo_tests_under_taps(self.prop)
        env.import_pyhms()
        return self._mod().run_case(desc)


C17_POINT_CLASSES = [
    "interior", "on-lower-face", "on-upper-face", "ulp-inside-lower", "ulp-inside-upper", "ulp-outside-lower", "ulp-outside-upper",
    "multiple-of-range-from-lower", "multiple-of-range-from-upper", "multiple-of-range-from-lower-ulp", "multiple-of-range-from-upper-ulp",
    "half-period", "far", "slightly-outside",
]


@register
class C17(DirectSpec):
    prop = "C17"
    module = "c17"
    repo_tests_case = 5
    rule = (
        "apply_bounds called directly on whole 2-D arrays mixing interior / face / ulp-neighbour / multiple-of-range / half-period / far "
        "points for boxes of every class; exact rational oracle; distinct non-trivial = distinct (method, box class, point class) cells with >=1 input outside the box"
    )
    sizes = {"quick": 210, "thorough": 84000}
    budgets = {"quick": 150.0, "thorough": 1500.0}
    assumptions = [
        "floats are treated as exact rationals (fractions.Fraction); tolerance for moved coordinates is 8*eps*(|x|+|lower|+|upper|), vacuous when it exceeds the range",
        "only finite inputs and boxes with lower < upper; inputs whose offset x - bound is itself not a finite double (|x - bound| > 1.8e308) are left out",
    ]

    def floors(self, tier):
        fl = [(f"cell.{m}.{b}.{pc}", 1, "cell populated") for m in ("clip", "reflect", "toroidal") for b in gen.BOX_CLASSES for pc in C17_POINT_CLASSES]
        fl += [(f"cell.{m}.{b}.absolute-magnitude", 1, "input of a magnitude unrelated to the box") for m in ("reflect", "toroidal") for b in ("xscale", "tiny", "decimal")]
        fl += [("integer_typed_bounds_arrays", 50, "calls with the box given as an integer-typed array (int8 ... int64, uint8)")]
        fl += [("results_re-read_after_later_calls", 100, "results looked at again after later calls of apply_bounds")]
        fl += [(f"cell.{m}.huge.{pc}", 1, "box whose range is finite while twice the range is not") for m in ("reflect", "toroidal") for pc in ("slightly-outside", "ulp-outside-lower", "ulp-outside-upper")]
        return fl


@register
class C16(DirectSpec):
    prop = "C16"
    module = "c16"
    rule = (
        "wrapper stacks of depth 0-4 over {counting, cutoff(N), precision(opt, eps), stats} in every order and both directions, driven by generated "
        "call sequences next to a reference model of each wrapper, every observable compared after every call; distinct non-trivial = distinct "
        "(stack shape, direction) with >=1 call past a cutoff or repeated precision hits"
    )
    sizes = {"quick": 2000, "thorough": 400000}
    budgets = {"quick": 150.0, "thorough": 1500.0}
    assumptions = ["the reference model of each wrapper (vlib/monitors/c16.py: Model) is the specification", "objective = first coordinate of the point (so the harness controls every returned value)"]

    def floors(self, tier):
        fl = [(f"pair.inner={a}.outer={b}", 1, "ordered pair of wrapper kinds") for a in ("count", "cutoff", "prec", "stats") for b in ("count", "cutoff", "prec", "stats")]
        n = self.sizes[tier]
        fl += [("late_wrapped_stacks", 20, "outermost wrapper constructed around an already used stack"), ("sequences_of_more_than_100000_calls", 2, "call sequences of more than 100 000 calls through one stack")]
        fl += [("C16.real_stack_checks", 20, "wrapper stacks of real runs checked"), ("C16.real_stack_checks_with_saturated_cutoff", 1, "real stack with a saturated cutoff")]
        fl += [("sequences_with_calls_past_cutoff", n // 10, "calls past the cutoff in >=10% of sequences"), ("sequences_with_repeated_precision_hits", n // 10, "repeated precision hits in >=10% of sequences")]
        return fl


@register
class C15(DirectSpec):
    prop = "C15"
    module = "c15"
    rule = (
        "NearestBetterClustering called directly on generated populations (uniform / clustered / collinear / tied / tied-with-best / tightly converged; "
        "n 2-60, dim 1-8, factors 0.5-4, truncation 0.1-1 incl. K=1) and compared with an independent O(n^2) reference, plus metamorphic re-runs; "
        "distinct non-trivial = distinct (class, n, dim, factor, truncation) whose reference result has >=2 and <K seeds"
    )
    sizes = {"quick": 4000, "thorough": 600000}
    budgets = {"quick": 150.0, "thorough": 1800.0}
    assumptions = [
        "vlib/monitors/c15.py:ref_nbc is the definition; threshold decisions are three-valued (relative band 1e-9)",
        "K = 0 has no defined answer and is excluded (counted); cases where int(n*truncation) in floats differs from the exact floor are excluded (counted)",
        "when several individuals tie for the best, any of them is accepted as 'the best one'",
    ]

    def floors(self, tier):
        from .monitors.c15 import CLASSES

        n = self.sizes[tier]
        fl = [(f"class.{c}.{dr}", 1, "input class x direction") for c in CLASSES for dr in ("min", "max")]
        fl += [("K_equals_1", n // 100, ">=1% of cases with K=1"), ("converged_populations", n // 20, ">=5% converged")]
        fl += [("public_views_read_before_clustering", n // 10, "clusterings whose public views (distances, tree) were read before cluster()")]
        fl += [("product_n_times_truncation_factor_just_below_an_integer", n // 50, "population size x truncation factor a hair below an integer")]
        fl += [("C15.real_populations_checked", 20, "NBC generator calls on real populations re-derived with the reference")]
        return fl


@register
class C13(DirectSpec):
    prop = "C13"
    module = "c13"
    rule = (
        "twin calls of every comparison-based component on (f, maximize) and (-f, minimize) with identical RNG state over generated populations "
        "with and without ties, plus whole seeded run twins over engine mixes without SEA-family levels; distinct non-trivial = distinct "
        "(component tie pattern) or (engine mix, mechanism) twins whose input had >=3 distinct fitness values"
    )
    sizes = {"quick": 2000, "thorough": 50000}
    budgets = {"quick": 150.0, "thorough": 1800.0}
    case_timeout = 90.0

    def floors(self, tier):
        comps = ["ordering", "topk", "select_new_population", "tournament", "DE", "DE_dither", "SHADE", "NBC", "DemeLimit", "LevelLimit", "R5S", "cutoff_sentinel"]
        fl = [(f"component.{c}.{t}", 1, "component exercised") for c in comps for t in ("ties", "no_ties")]
        fl += [(f"twin_engine.{e}", 1, "index-stable engine on a level of a run twin") for e in ("de", "shade", "cma", "cma_warm", "local", "lhs", "sobol")]
        fl += [(f"component.{c}.k{e}={v}.no_ties", 1, "boundary size of a top-k / elite selection") for c, e in (("topk", ""), ("select_new_population", "_elites")) for v in ("0", "n", "between")]
        fl += [("component.topk.more_than_64_individuals.no_ties", 10, "top-k of more than 64 individuals"), ("run_twins_under_the_precision_stop_condition", 3, "whole-run twins stopped by SingularProblemPrecisionReached")]
        fl += [("run_twins", 20, "whole-run twins"), ("run_twins_with_result_caching_on_both_formulations", 5, "whole-run twins with FunctionProblem(use_cache=True) on both sides")]
        return fl


@register
class C14(DirectSpec):
    prop = "C14"
    module = "c14"
    rule = (
        "seeded descriptors over every engine of the quantifier, each run twice in-process with freshly built configuration objects and differently "
        "scrambled global RNG states, and in fresh interpreters with PYTHONHASHSEED in {0,1,12345,random} (global RNGs scrambled from os.urandom), plus "
        "minimize(seed=...) twice; public snapshots + call-log digests compared; distinct non-trivial = distinct engine mixes that produced >=2 demes and draw from >=2 random sources"
    )
    sizes = {"quick": 64, "thorough": 640}
    budgets = {"quick": 200.0, "thorough": 2400.0}
    case_timeout = 200.0

    def floors(self, tier):
        fl = [(f"engine.{e}", 1, "engine present") for e in gen.ROOT_ENGINES + gen.CMA_ENGINES + gen.LEAF_ONLY]
        fl += [("same_config_objects_run_twice", 10, "the same configuration objects run twice in one process"),
               ("two_seed_consuming_demes_sprouted_onto_one_level_in_one_metaepoch", 2, "two CMA-ES / LHS / Sobol demes sprouted onto one level in one metaepoch"),
               ("descriptors_with_a_de_or_shade_population_of_32_or_more", 2, "seeded twins with a DE / SHADE population of 32 or more individuals"),
               ("cma_deme_handed_the_largest_seed_numpy_accepts", 2, "CMA-ES deme sprouted in metaepoch 1 of a run seeded with 2**32 - 2 (its seed is 2**32 - 1)"),
               ("seeded_runs_carried_out_through_the_stepping_methods", 8, "seeded runs driven by run_step() calls followed by run(), or by run_metaepoch() / run_sprout() by hand"),
               ("runs_preceded_by_a_short_run_of_a_sibling_configuration", 10, "seeded runs repeated after a short run of a sibling configuration in the same process"),
               ("history_twins_with_a_warm_started_cma_deme", 3, "such history twins in which a warm-started CMA-ES deme was sprouted"),
               ("descriptors_with_3_levels", 1, "descriptor with 3 levels"), ("cross_process_twins", 10, "fresh-interpreter twins"), ("descriptors_with_2_demes", 10, "descriptors that produced >=2 demes")]
        return fl


@register
class C19(DirectSpec):
    prop = "C19"
    module = "c19"
    rule = (
        "generated runs of K metaepochs stepped through run_step(); at every boundary k=0..K: raw digest / RNG fingerprint / call-log length around pickle_dump, "
        "public snapshot + raw digest + GSC verdict of the loaded tree vs. the live one; loaded trees continued to the end (from the dump-time RNG state) under the C03/C04/C07/C08 "
        "monitors and compared with the live tree's own future; distinct non-trivial = distinct (engine mix, k, hibernation, objective form) snapshots of trees with >=2 demes"
    )
    sizes = {"quick": 48, "thorough": 2000}
    budgets = {"quick": 200.0, "thorough": 2400.0}
    case_timeout = 240.0

    def floors(self, tier):
        return [
            ("snapshot_with_active_cma", 1, "snapshot with an active CMA-ES deme"),
            ("snapshot_with_hibernating_deme", 1, "snapshot with a hibernating deme"),
            ("snapshot_with_fresh_deme", 1, "snapshot with a freshly sprouted deme"),
            ("snapshot_whose_lowest_level_interleaves_the_children_of_different_parents", 2, "snapshot of a 3-level tree whose lowest level (in creation order) interleaves the children of different parents"),
            ("dumps_of_a_tree_on_which_reading_the_best_draws_from_the_global_generator", 3, "dumps of a tree holding NaN ties, where any look at the best would draw from random"),
            ("dumps_larger_than_128_KiB_with_a_plain_data_objective", 2, "snapshots > 128 KiB of trees whose objective is an instance of an importable plain-data class"),
            ("snapshots_after_more_than_10000_evaluations_through_one_statistics_wrapper", 2, "snapshots taken after more than 10 000 evaluations had gone through one statistics wrapper"),
            ("timings_of_statistics_wrappers_compared_after_load", 20, "statistics wrappers whose gathered timings were compared between the dumped and the loaded tree"),
            ("snapshot_at_0", 1, "snapshot at k=0"),
            ("snapshot_at_K", 1, "snapshot at k=K"),
            ("continued_run_sprouted_again", 1, "continued run that sprouted again after loading"),
            ("continued_runs", 10, "continued runs"),
            ("fresh_process_continued_runs", 5, "snapshots loaded and continued in a fresh interpreter"),
            ("fresh_process_continued_run_sprouted_again", 1, "fresh-interpreter continuation that sprouted again"),
            ("engine.custom", 1, "custom deme class in a snapshot"),
        ]


@register
class C20(RunSpec):
    prop = "C20"
    rule = (
        "generated runs; at every boundary summary()/tree() are parsed and compared with the tree (integers exact, floats at printed precision), every accessor is called twice in "
        "random order with call-log length, raw digest and RNG fingerprint compared around it; seeded runs are compared with an undisturbed twin at the end; "
        "distinct non-trivial = distinct (height, engine mix, boundary index) reports with >=3 deme lines"
    )
    sizes = {"quick": 120, "thorough": 5000}

    def profile(self, rng, idx, tier):
        p = {"dim": (2, 3), "max_pop": 12}
        p["root"] = _cycle(ROOT_ENGINES, idx)
        p["leaf"] = _cycle(ALL_LEAVES, idx, 1)
        p["levels"] = [2, 3, 2, 1]
        p["fams"] = ["plateau", "constant", "sphere", "rastrigin", "plateau", "funnel", "linear", "offset", "offset"]
        p["gscs"] = ["melimit", "evals"]
        p["seeded_p"] = 0.85
        p["entry"] = "tree"
        p["hibernation_p"] = 0.3
        if idx % 7 == 3:
            p["fam"] = "constant"
        return p

    def make_case(self, seed, idx, tier):
        d = super().make_case(seed, idx, tier)
        if idx % 7 == 3:
            d["obj"]["v"] = 0.0
        if idx % 10 == 6 and d.get("kind") == "tree" and len(d["levels"]) >= 2:
            # one problem object for all levels whose outermost wrapper is a StatsGatheringProblem (it keeps a call counter of its own, which
            # is about the wrapper, not about any one level): the per-level lines of summary() are about the level's demes
            d["shared"] = True
            for lv in d["levels"]:
                lv["stack"] = ["stats"]
            d["levels"][0]["lsc"] = {"k": "dontstop"}
            d["per_level_report_with_a_shared_stats_wrapper"] = True
        if d["gsc"]["k"] == "melimit":
            d["gsc"]["n"] = min(d["gsc"]["n"], 6)
        else:
            d["gsc"]["n"] = min(d["gsc"]["n"], 700)
        return d

    def run_case(self, desc):
        from . import harness
        from .monitors.c20 import C20Reports
        from .observe import diff_snapshots, public_snapshot, snapshot_digest

        ctx = harness.run_case(desc, [C20Reports()])
        res = run_result(ctx, desc)
        if desc.get("options", {}).get("random_seed") is not None and not ctx.aborted and ctx.tree is not None:
            twin = harness.run_case(desc, [])
            res["cov"]["C20.undisturbed_twins"] += 1
            if not twin.aborted:
                a, b = public_snapshot(ctx.tree, with_text=False), public_snapshot(twin.tree, with_text=False)
                if snapshot_digest(a) != snapshot_digest(b) or [e[1] for e in ctx.log] != [e[1] for e in twin.log]:
                    ctx.violation("C20", "looking at the tree during the run changed its future (differs from the undisturbed seeded twin)", {"differences": diff_snapshots(b, a), "engines": gen.engine_mix(desc)})
                    res["violations"] = ctx.violations
        return res

    def floors(self, tier):
        return [
            ("C20.per_level_lines_checked_with_one_stats_wrapper_shared_by_two_populated_levels", 10, "per-level report lines checked on trees whose levels share one StatsGatheringProblem"),
            ("C20.two_demes_share_global_best", 1, "tree with >=2 demes sharing the global best"),
            ("C20.displayed_and_not_yet_displayed_child", 1, "tree with a displayed and a not-yet-displayed child"),
            ("C20.best_fitness_exactly_zero", 1, "best fitness exactly 0.0"),
            ("objective.offset", 3, "objective with a huge constant offset (near-ties in the 10th digit)"),
            ("C20.undisturbed_twins", 10, "undisturbed twins"),
            ("C20.accessor_calls", 1000, "accessor calls"),
        ]


@register
class C10(DirectSpec):
    prop = "C10"
    module = "c10"
    repo_tests_case = 5
    rule = (
        "generators and filters called directly on synthetic trees (real DemeTree objects of 2-3 levels shaped by the harness: extra children with chosen seeds, activity flags, just-finished demes) "
        "and synthetic candidate sets (sizes 0-12 per parent, distinct / tied / all-equal fitness, exact and near duplicates of existing seeds, both directions, limits 1-5, chains in random order), "
        "plus the same oracles on every generator / filter application of real runs through taps; distinct non-trivial = distinct (filter, direction, tie pattern, occupancy) in which the filter removed something but not everything"
    )
    sizes = {"quick": 400, "thorough": 40000}
    budgets = {"quick": 150.0, "thorough": 1800.0}

    def floors(self, tier):
        fl = []
        for dr in ("min", "max"):
            fl.append((f"filter.DemeLimit.had_to_choose.{dr}", 5, "DemeLimit had to choose"))
            fl.append((f"filter.LevelLimit.had_to_choose.{dr}.distinct", 5, "LevelLimit had to choose with distinct fitness"))
            for f in ("DemeLimit", "LevelLimit", "SkipSameSprout", "FarEnough", "NBC_FarEnough"):
                fl.append((f"filter.{f}.{dr}", 1, "filter applied"))
        fl += [(f"generator.{g}", 1, "generator called") for g in ("BestPerDeme", "NBC_Generator", "NBCGeneratorWithLocalMethod")]
        fl += [("generator.just_finished_parent", 1, "just-finished deme offered by the local-method generator"), ("filter.SkipSameSprout.rejected", 1, "duplicate rejected"), ("chain_order", 3, "filter chains")]
        return fl
