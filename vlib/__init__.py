"""Runtime-monitoring framework for agh-a2s/pyhms (see /verif/DESIGN.md)."""
