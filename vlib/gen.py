"""Seeded workload generator: JSON case descriptors for tree runs.

A descriptor is fully expanded (everything needed to rebuild the configuration), so a replay file is just
the descriptor.  Randomness comes from random.Random seeded with a *string* (sha512-based, independent of
PYTHONHASHSEED).
"""
import random

from .objectives import FAMILIES, gen_objective

GEN_VERSION = 1

SEA_FAMILY = ["sea", "sea_cx", "ga", "sea_adapt"]
ROOT_ENGINES = SEA_FAMILY + ["mwea", "de", "de_dither", "shade", "lhs", "sobol"]
INNER_ENGINES = SEA_FAMILY + ["mwea", "de", "de_dither", "shade", "cma", "cma_warm", "cma_stds"]
LEAF_ONLY = ["local", "local_maxiter"]
POP_ENGINES = SEA_FAMILY + ["mwea", "de", "de_dither", "shade"]
CMA_ENGINES = ["cma", "cma_warm", "cma_stds"]
ALL_ENGINES = ROOT_ENGINES + CMA_ENGINES + LEAF_ONLY
BOX_CLASSES = ["sym", "asym", "decimal", "tiny", "large", "offset", "mixed"]
GSC_KINDS = ["melimit", "evals", "fevals", "precision", "rootstopped", "allstopped", "nononroot", "dontrun"]
LSC_KINDS = ["dontstop", "dontstop", "melimit", "melimit", "steady", "children", "user", "user", "dontrun"]


def case_rng(prop: str, seed: int, idx: int, salt: str = "") -> random.Random:
    return random.Random(f"{prop}:{seed}:{idx}:{salt}:v{GEN_VERSION}")


def gen_box(rng, d: int, cls: str | None = None) -> dict:
    cls = cls or rng.choice(BOX_CLASSES)

    def one(c):
        if c == "sym":
            h = rng.choice([1.0, 5.0, 20.0])
            return [-h, h]
        if c == "asym":
            lo = rng.choice([-3.0, 0.0, -7.5, 2.0])
            return [lo, lo + rng.choice([1.0, 10.0, 4.5])]
        if c == "decimal":
            return list(rng.choice([(-0.1, 0.2), (0.1, 0.3), (-0.7, 0.1), (0.3, 0.9), (-0.3, -0.1)]))
        if c == "tiny":
            lo = rng.choice([0.0, 1.0, -2.5])
            return [lo, lo + 1e-3]
        if c == "large":
            return [-1e6, 1e6]
        if c == "offset":
            return [1e6, 1e6 + 1.0]
        if c == "needle":
            return [-5.0, 5.0]
        if c == "nano":
            # narrower than the step of a numerical derivative (1.5e-8), next to zero: a probe "x + h" clipped to the box by h = upper - x
            # is only inside if that subtraction and addition round the right way
            return list(rng.choice([(-1e-9, 3e-9), (0.0, 2e-9), (-3e-9, 1e-9), (1e-10, 7e-9)]))
        if c == "overshoot":
            # decimal bounds on which alpha * v + (1 - alpha) * v rounds to a value beyond v for a few per cent of the alphas
            return list(rng.choice([(-5.12, 5.12), (0.3, 0.9), (-5.2, 5.2), (-1.28, 1.28), (-10.24, 10.24)]))
        if c == "fullprec":
            # bounds that use all 53 bits (0.1234567890123456...): not on any decimal grid a rounding / cache key could assume
            lo = rng.uniform(-1.0, 1.0)
            return [lo, lo + rng.uniform(0.5, 2.0)]
        raise ValueError(c)

    if cls == "mixed":
        # per-coordinate classes, scales kept within ~1e3 of each other (scalar sample/mutation widths)
        pool = rng.choice([["sym", "asym", "decimal"], ["decimal", "tiny"], ["asym", "offset", "decimal"]])
        bounds = [one(rng.choice(pool)) for _ in range(d)]
    else:
        b = one(cls)
        same = rng.random() < 0.7 or cls in ("large", "offset", "tiny", "overshoot", "nano")
        bounds = [list(b) if same else one(cls) for _ in range(d)]
    return {"cls": cls, "bounds": bounds}


def _ranges(bounds):
    return [b[1] - b[0] for b in bounds]


def gen_lsc(rng, kind: str | None = None, kinds=None) -> dict:
    kind = kind or rng.choice(kinds or LSC_KINDS)
    if kind == "melimit":
        return {"k": "melimit", "n": rng.randint(1, 5)}
    if kind == "steady":
        return {"k": "steady", "dev": rng.choice([1e-3, 1e-1, 10.0]), "n": rng.randint(1, 3)}
    if kind == "user":
        return {"k": "user", "salt": rng.randint(0, 10**6), "num": rng.randint(1, 3), "den": rng.randint(3, 6)}
    return {"k": kind}


def gen_level(rng, engine: str, bounds, lsc: dict | None = None, stack=None, max_pop=24, max_gens=4) -> dict:
    rs = _ranges(bounds)
    rmin = min(rs)
    lv = {"engine": engine, "lsc": lsc or gen_lsc(rng), "stack": stack or []}
    if engine in POP_ENGINES or engine in ("custom_ea", "custom_ea2"):
        lv["pop"] = rng.randint(4, max_pop)
        lv["gens"] = rng.randint(1, max_gens)
        lv["sample_std"] = rmin * rng.choice([0.02, 0.1, 0.3])
        if len(bounds) <= 3 and rng.random() < 0.15:
            # sampling width far larger than the box (e.g. the default sample_std_dev=1.0 in a small box): the
            # rejection sampler around the seed needs hundreds of draws per accepted point
            lv["sample_std"] = rmin * rng.choice([1.5, 3.0])
    if engine in SEA_FAMILY or engine in ("mwea", "custom_ea", "custom_ea2"):
        lv["mutation_std"] = rmin * rng.choice([0.01, 0.05, 0.25, 1.5])
        lv["p_mutation"] = rng.choice([1.0, 1.0, 0.3])
        if engine in ("sea", "sea_cx", "ga") and rng.random() < 0.06:
            lv["p_mutation"] = 0.0  # legal: crossover / selection only
        lv["k_elites"] = rng.randint(1, 3)
        if engine in SEA_FAMILY and rng.random() < 0.05:
            lv["k_elites"] = 0  # legal: no elitism (C12's elitism clause does not apply then)
        if engine in SEA_FAMILY and rng.random() < 0.08:
            lv["k_elites"] = lv["pop"] + rng.choice([0, 0, 1])  # (mu + mu) plus-selection: every parent is an elite
        if engine in ("sea_cx", "ga"):
            lv["p_crossover"] = rng.choice([0.7, 1.0, 0.3])
        if engine == "sea_adapt":
            lv["mutation_std_step"] = rmin * rng.choice([0.01, 0.1])
        if engine == "mwea":
            lv["pop"] = max(lv["pop"], 5)
            lv["election_group_size"] = rng.randint(max(2, lv["k_elites"]), min(lv["pop"], 8))
            lv["k_elites"] = min(lv["k_elites"], lv["election_group_size"])
    if engine in ("de", "de_dither"):
        lv["scaling"] = rng.choice([0.5, 0.8, 1.5, 0.1])
        lv["crossover"] = rng.choice([0.9, 0.5, 1.0, 0.1, 0.0])
    if engine == "shade":
        lv["pop"] = max(lv["pop"], 5)
        lv["memory"] = rng.choice([1, 2, 3, 5, 8])
    if engine in ("lhs", "sobol"):
        # Sobol' sample sizes that are not powers of two are legal (scipy only warns about balance properties)
        lv["pop"] = rng.choice([4, 8, 16, 6, 10, 20, 12, 5]) if engine == "sobol" else rng.randint(4, max_pop)
    if engine in CMA_ENGINES:
        lv["gens"] = rng.randint(1, max_gens + 2)
        if engine == "cma":
            lv["sigma0"] = rmin * rng.choice([0.05, 0.2, 0.001])
        elif engine == "cma_stds":
            lv["sigma0"] = rng.choice([None, 1.0, 0.5])
    if engine == "local_maxiter":
        lv["maxiter"] = rng.randint(1, 6)
    if engine in ("local", "local_maxiter") and rng.random() < 0.3:
        lv["method"] = rng.choice(["l-bfgs-b", "L-BFGS-B", "l-bfgs-b"])  # scipy accepts any capitalisation of the method name
    if engine == "custom":
        lv["pop"] = rng.randint(3, 10)
    return lv


def gen_stack(rng, allow_cutoff=True) -> list:
    """Wrapper stack, inside-out, on top of the FunctionProblem."""
    r = rng.random()
    if r < 0.45:
        return []
    pool = ["count", "stats", "prec"] + (["cutoff"] if allow_cutoff else [])
    n = rng.randint(1, 3)
    out = []
    for _ in range(n):
        k = rng.choice(pool)
        if k == "cutoff":
            out.append(f"cutoff:{rng.choice([60, 150, 400, 1000])}")
        elif k == "prec":
            out.append(f"prec:{rng.choice([1e-1, 1e-3, 1e-6])}")
        else:
            out.append(k)
    return out


def gen_sprout(rng, bounds, n_levels: int, kind: str | None = None, level_limit=None, leaf_local=False) -> dict:
    rs = _ranges(bounds)
    rmin = min(rs)
    kind = kind or rng.choice(["simple", "nbc", "custom", "custom"])
    ll = level_limit or rng.randint(1, 4)
    if kind == "simple":
        return {"k": "simple", "far": rmin * rng.choice([0.001, 0.05, 0.3]), "ll": ll}
    if kind == "nbc":
        return {
            "k": "nbc",
            "gdf": rng.choice([1.0, 2.0, 3.0]),
            "trunc": rng.choice([0.5, 0.7, 1.0]),
            "fdf": rng.choice([0.5, 1.5, 3.0]),
            "ll": ll,
        }
    g = rng.choice(["best", "nbc", "nbc"] + (["nbclocal"] if (leaf_local and n_levels == 3) else []))
    gen = {"k": g}
    if g != "best":
        gen.update({"df": rng.choice([1.0, 2.0, 3.0]), "trunc": rng.choice([0.5, 0.7, 1.0])})
    dfs = []
    pool = ["far", "demelimit"] + (["nbcfar"] if g != "best" else [])
    for k in rng.sample(pool, rng.randint(1, len(pool))):
        if k == "far":
            dfs.append({"k": "far", "d": rmin * rng.choice([0.001, 0.05, 0.3]), "ord": rng.choice([1, 2, "inf"])})
        elif k == "nbcfar":
            dfs.append(
                {"k": "nbcfar", "f": rng.choice([0.5, 1.5, 3.0]), "ord": rng.choice([1, 2, "inf"]), "active": rng.random() < 0.5}
            )
        else:
            dfs.append({"k": "demelimit", "n": rng.randint(1, 3)})
    tfs = [{"k": "levellimit", "n": ll}]
    if rng.random() < 0.5:
        tfs.append({"k": "skipsame"})
        rng.shuffle(tfs)
    if rng.random() < 0.25:
        tfs.insert(0, {"k": "userpure"})  # a user-written functional-style filter ahead of the built-in ones
    if rng.random() < 0.15:
        dfs.insert(rng.randrange(len(dfs) + 1), {"k": "userpure"})
    return {"k": "custom", "gen": gen, "dfilters": dfs, "tfilters": tfs, "ll": ll}


def gen_gsc(rng, kind: str | None = None, kinds=None) -> dict:
    kind = kind or rng.choice(kinds or ["melimit", "melimit", "evals", "fevals"])
    if kind == "melimit":
        return {"k": "melimit", "n": rng.choice([1, 2, 3, 4, 5, 6, 7, 8])}
    if kind == "evals":
        return {"k": "evals", "n": rng.choice([1, rng.randint(40, 1500), rng.randint(40, 1500), rng.randint(40, 400)])}
    if kind == "fevals":
        # the documented strategies are the strings "equal" / "root" (WeightingStrategy is a str-Enum): both spellings are legal
        return {"k": "fevals", "n": rng.randint(40, 1500), "w": rng.choice(["equal", "root", None, "list"]), "w_spelling": rng.choice(["enum", "str"])}
    if kind == "precision":
        return {"k": "precision", "eps": rng.choice([1e-1, 1e-2, 1e-4])}
    if kind == "nononroot":
        return {"k": "nononroot", "n": rng.randint(0, 3)}
    return {"k": kind}


def gen_tree_case(rng, prof: dict | None = None) -> dict:
    """General tree-run descriptor.  `prof` narrows / re-weights dimensions for a property's workload."""
    p = prof or {}
    d = rng.randint(*p.get("dim", (2, 4)))
    box = gen_box(rng, d, p.get("box") or rng.choice(p.get("boxes", BOX_CLASSES)))
    bounds = box["bounds"]
    fam = p.get("fam") or rng.choice(p.get("fams", FAMILIES))
    obj = gen_objective(rng, d, fam)
    n_levels = p.get("n_levels") or rng.choice(p.get("levels", [1, 2, 2, 2, 3, 3]))
    roots = p.get("roots", ROOT_ENGINES)
    inners = p.get("inners", INNER_ENGINES)
    leaves = p.get("leaves", INNER_ENGINES + LEAF_ONLY)
    engines = [p.get("root") or rng.choice(roots)]
    for li in range(1, n_levels):
        last = li == n_levels - 1
        if last:
            engines.append(p.get("leaf") or rng.choice(leaves))
        else:
            engines.append(p.get("inner") or rng.choice(inners))
    shared = p.get("shared", rng.random() < 0.4)
    allow_cutoff = p.get("allow_cutoff", True)
    stacks = []
    if shared:
        s = gen_stack(rng, allow_cutoff) if p.get("stacks", True) else []
        stacks = [s] * n_levels
    else:
        stacks = [(gen_stack(rng, allow_cutoff) if p.get("stacks", True) else []) for _ in range(n_levels)]
    lsc_kinds = p.get("lscs")
    levels = []
    tiny_leaf = n_levels >= 2 and engines[-1] in SEA_FAMILY and rng.random() < p.get("tiny_leaf_p", 0.06)
    for li, e in enumerate(engines):
        lsc = gen_lsc(rng, kinds=lsc_kinds)
        if li == 0 and p.get("root_lsc"):
            lsc = gen_lsc(rng, kind=p["root_lsc"])
        levels.append(
            gen_level(rng, e, bounds, lsc=lsc, stack=stacks[li], max_pop=p.get("max_pop", 24), max_gens=p.get("max_gens", 4))
        )
    if tiny_leaf:
        # a (1+1)-style leaf: population of 1-3 individuals (legal for the SEA family)
        levels[-1]["pop"] = rng.choice([1, 1, 2, 3])
        levels[-1]["k_elites"] = min(levels[-1].get("k_elites", 1), levels[-1]["pop"])
    gsc = gen_gsc(rng, kind=p.get("gsc"), kinds=p.get("gscs"))
    # keep the run able to finish: a budget-type GSC needs a root that keeps running, a "stopped"-type GSC
    # needs local stop conditions that do stop (anything else ends in the harness' idle watchdog)
    if not p.get("free_lscs"):
        if gsc["k"] in ("evals", "fevals", "precision") and rng.random() < 0.85:
            levels[0]["lsc"] = {"k": "dontstop"}
        if gsc["k"] == "rootstopped" and levels[0]["lsc"]["k"] in ("dontstop", "children", "steady"):
            levels[0]["lsc"] = gen_lsc(rng, kind=rng.choice(["melimit", "user"]))
        if gsc["k"] in ("allstopped", "nononroot"):
            for li, lv in enumerate(levels):
                if lv["lsc"]["k"] in ("dontstop", "steady") or (lv["lsc"]["k"] == "children" and li == len(levels) - 1):
                    lv["lsc"] = gen_lsc(rng, kind=rng.choice(["melimit", "user"]))
    if gsc["k"] == "fevals" and gsc.get("w") == "list":
        gsc["w"] = [rng.choice([0, 1, 2, 0.5]) for _ in range(n_levels)]
        if not any(gsc["w"]):
            gsc["w"][0] = 1
        gsc["w_form"] = rng.choice(["list", "tuple", "array"])
    if gsc["k"] == "precision":
        # needs a precision wrapper on the root level's stack (index recorded for the builder)
        st = list(levels[0]["stack"])
        if not any(s.startswith("prec") for s in st):
            st.append(f"prec:{gsc['eps']}")
        if shared:
            for lv in levels:
                lv["stack"] = st
        else:
            levels[0]["stack"] = st
    sprout = gen_sprout(
        rng,
        bounds,
        n_levels,
        kind=p.get("sprout"),
        level_limit=p.get("level_limit"),
        leaf_local=engines[-1] in LEAF_ONLY,
    )
    if sprout["k"] == "nbc" or (sprout["k"] == "custom" and sprout["gen"]["k"] != "best"):
        # NBC truncation must keep >= 2 individuals of every non-leaf population (documented precondition)
        tr = sprout.get("trunc") if sprout["k"] == "nbc" else sprout["gen"]["trunc"]
        kmin = 1 if p.get("allow_nbc_k1") else 2
        for lv in levels[:-1]:
            if "pop" in lv:
                while int(lv["pop"] * tr) < kmin:
                    lv["pop"] += 1
    options = {}
    # CMA-ES (clock) and the qmc samplers (OS entropy) are not replayable without a seed: always seed those
    needs_seed = any(e in CMA_ENGINES or e in ("lhs", "sobol") for e in engines)
    if rng.random() < p.get("seeded_p", 0.7) or needs_seed:
        options["random_seed"] = rng.randint(0, 10**6)
    hib = p.get("hibernation")
    if hib is None:
        hib = rng.random() < p.get("hibernation_p", 0.3)
    if hib or rng.random() < 0.3:
        options["hibernation"] = bool(hib)
    r = rng.random()
    if p.get("log_level"):
        options["log_level"] = p["log_level"]
    elif r < 0.08:
        options["log_level"] = rng.choice(["error", "critical", "warning"])
    elif r < 0.11:
        options["log_level"] = rng.choice(["info", "debug"])  # verbose levels: the log calls' arguments are used for real
    return {
        "gen": GEN_VERSION,
        "kind": "tree",
        "box": box,
        "obj": obj,
        "maximize": p.get("maximize", rng.random() < 0.5),
        "levels": levels,
        "shared": shared,
        "gsc": gsc,
        "sprout": sprout,
        "options": options,
        "entry": p.get("entry") or rng.choice(["tree", "tree", "tree", "hms"]),
        "np_seed": rng.randint(0, 2**31 - 1),
    }


def engine_mix(desc: dict) -> str:
    return ">".join(lv["engine"] for lv in desc["levels"])


def gen_minimize_case(rng, prof: dict | None = None) -> dict:
    """Descriptor for the scipy-style convenience entry point minimize(fun, bounds, maxfun|maxiter, seed)."""
    p = prof or {}
    d = rng.randint(*p.get("dim", (2, 4)))
    box = gen_box(rng, d, p.get("box") or rng.choice(p.get("boxes", ["sym", "asym", "decimal", "mixed", "offset", "tiny"])))
    fam = p.get("fam") or rng.choice(p.get("fams", FAMILIES))
    obj = gen_objective(rng, d, fam)
    pop = 10 + 2 * d
    budget = p.get("budget") or rng.choice(["maxfun", "maxfun", "maxiter"])
    maxfun = maxiter = None
    if budget in ("maxfun", "both"):
        maxfun = rng.choice([1, 2, 5, pop - 1, pop, pop + 1, 2 * pop + 3, rng.randint(30, 400), rng.randint(100, 1500)])
        if budget == "both":
            # both limits given: maxfun stays a hard budget whatever maxiter says
            maxiter = rng.choice([2, 4, 8, 30, 1000])
    else:
        maxiter = rng.randint(1, 5)
    desc = {
        "gen": GEN_VERSION,
        "kind": "minimize",
        "box": box,
        "obj": obj,
        "maximize": False,
        "maxfun": maxfun,
        "maxiter": maxiter,
        "seed": rng.randint(0, 10**6) if rng.random() < 0.8 or p.get("pair") else None,
        "maxfun_type": rng.choice(["int", "int", "int", "np.int64", "float"]),
        "bounds_as": rng.choice(["array", "list"]),
        "np_seed": rng.randint(0, 2**31 - 1),
        # what minimize() builds internally (for the monitors' look-ups only)
        "levels": [
            {"engine": "sea", "pop": pop, "gens": 1, "k_elites": 1, "p_mutation": 1.0, "lsc": {"k": "dontstop"}, "stack": []},
            {"engine": "cma_warm", "gens": 20, "lsc": {"k": "steady"}, "stack": []},
        ],
        "shared": True,
        "gsc": {"k": "evals", "n": maxfun} if maxfun is not None else {"k": "melimit", "n": maxiter},
        "sprout": {"k": "nbc", "gdf": 3.0, "trunc": 0.7, "fdf": 3.0, "ll": 4},
        "options": {},
        "entry": "minimize",
    }
    if p.get("vertex_collapse"):
        # a longer run on a 2-D box whose optimum sits in a vertex with non-zero coordinates: CMA-ES collapses onto the vertex and
        # its bound repair produces bit-identical points again and again (what a result cache or a de-duplication would merge)
        b = rng.choice([[1.0, 2.0], [-5.0, 5.0], [0.5, 1.5], [-3.0, -1.0]])
        desc["box"] = {"cls": "vertex2d", "bounds": [list(b), list(b)]}
        desc["obj"] = {"fam": "linear", "u": [0.5, 0.5], "w": [rng.choice([-1, 1]) * 1.0, rng.choice([-1, 1]) * 1.25]}
        desc["maxfun"] = rng.choice([2500, 3000, 3500])
        desc["maxiter"] = None
        desc["maxfun_type"] = "int"
        desc["seed"] = rng.randint(0, 10**6)
        pop = 14
        desc["levels"][0]["pop"] = pop
        desc["gsc"] = {"k": "evals", "n": desc["maxfun"]}
    if p.get("same_callable_two_boxes"):
        # the same objective callable is first minimised over another box (which does not contain this one)
        sh = rng.choice([-0.6, -0.35, 0.35, 0.6])
        desc["first_box"] = {"cls": box["cls"] + "-shifted", "bounds": [[b[0] + sh * (b[1] - b[0]), b[1] + sh * (b[1] - b[0])] for b in box["bounds"]]}
    if p.get("pair"):
        n1 = rng.choice([1, 3, pop - 1, pop + 2, rng.randint(20, 300)])
        n2 = n1 + rng.choice([1, 2, pop, rng.randint(10, 500)])
        desc.update({"pair": True, "maxfun": n1, "maxfun2": n2, "maxiter": None, "gsc": {"k": "evals", "n": n1}})
    return desc
