"""Run-based monitors C11 (breeding), C12 (elitism / size), C18 (hibernation / progress)."""
from collections import Counter

import numpy as np

from ..harness import canon, gen_digest
from .base import Monitor, ind_key, pop_keys

GEN_ENGINES = {"EADeme", "DEDeme", "SHADEDeme", "CMADeme", "LHSDeme", "SobolDeme", "RandomSearchDeme"}
SEA_ELITIST = {"sea", "sea_cx", "ga", "sea_adapt"}


def _intra_flags(deme):
    """For each flattened generation index: True if it is not the first generation of its metaepoch."""
    h = getattr(deme, "_history", None)
    if h is None:
        return None
    out = []
    for me in h:
        for k in range(len(me)):
            out.append(k > 0)
    return out


class C11Breeding(Monitor):
    prop = "C11"

    def __init__(self):
        super().__init__()
        self.T = {}
        self.last_gen = {}
        self.checked = {}
        self.ranges = {}

    def on_init(self, deme, start, end):
        self.T[deme.id] = [end]
        self.last_gen[deme.id] = sorted(pop_keys(deme.history[-1])) if deme.history else []
        self.ranges.setdefault(deme.id, []).append((start, end))

    def on_gsc(self, tree, verdict, kind, deme):
        if kind == "deme" and deme.id in self.T:
            self.T[deme.id].append(len(self.ctx.log))
        # a user-written stop condition may read the populations whenever it is consulted, also in the middle of the consulting
        # deme's metaepoch: reading must not influence what the next generation is bred from
        if self.ctx.n_gsc % 2 == 0:
            for lvl in tree.levels:
                for d in lvl:
                    if d.history:
                        d.current_population
                        d.best_current_individual
            self.cov("populations_read_at_a_consultation")

    def on_deme_exit(self, deme, start, end):
        self.ranges.setdefault(deme.id, []).append((start, end))

    def _scope_deme(self):
        sc = self.ctx.scope
        return sc[-1][1] if sc and sc[-1][0] == "me" else None

    def on_engine_in(self, kind, engine, parents):
        did = self._scope_deme()
        if did is None or did not in self.last_gen:
            self.cov("engine_in_outside_metaepoch")
            return
        self.cov(f"engine_in.{kind}")
        got = sorted(pop_keys(parents))
        if got != self.last_gen[did]:
            d = self._find(did)
            gens = d._history and sum(len(m) for m in d._history) if d is not None else None
            self.v(
                f"engine was handed a population that is not the deme's immediately preceding generation: {kind}",
                deme=did,
                engine=type(engine).__name__,
                same_as_preceding=sum(1 for k in got if k in set(self.last_gen[did])),
                size=len(got),
                generations_recorded=gens,
            )

    def on_engine_out(self, kind, engine, parents, out):
        did = self._scope_deme()
        if did is not None:
            self.last_gen[did] = sorted(pop_keys(out))

    def _find(self, did):
        t = self.ctx.tree
        if t is None:
            return None
        for lvl in t.levels:
            for d in lvl:
                if d.id == did:
                    return d
        return None

    def on_cma_tell(self, es, solutions, values):
        did = self._scope_deme()
        if did is None:
            return
        d = self._find(did)
        if d is None or self.has_cutoff(d.level):
            self.cov("cma_tell_skipped_cutoff")
            return
        self.cov("engine_in.cma")
        lam = len(solutions)
        log = self.ctx.log
        # this deme's most recent `lam` evaluations = its immediately preceding generation
        idxs = []
        rs = list(self.ranges.get(did, []))
        sc = self.ctx.scope[-1]
        rs.append((sc[2], len(log)))
        for s, e in reversed(rs):
            for i in range(e - 1, s - 1, -1):
                idxs.append(i)
                if len(idxs) == lam:
                    break
            if len(idxs) == lam:
                break
        idxs.reverse()
        want = [log[i][1] for i in idxs]
        got = [canon(s_).tobytes() for s_ in solutions]
        if got != want:
            self.v("CMA-ES was told solutions that are not the deme's immediately preceding generation", deme=did, matching=sum(1 for a, b in zip(got, want) if a == b), lam=lam)
        else:
            ys = [log[i][2] for i in idxs]
            vals = [float(v) for v in values]
            if vals != ys and vals != [-y for y in ys]:
                self.v("CMA-ES was told fitness values that are not those of the told solutions", deme=did)

    def _scan(self, tree):
        log = self.ctx.log
        for d in self.all_demes(tree):
            cname = type(d).__name__
            if cname not in GEN_ENGINES or d.id not in self.T:
                continue
            hist = d.history
            times = self.T[d.id]
            if len(times) != len(hist):
                self.cov("generation_times_not_aligned")
                continue
            intra = _intra_flags(d)
            eng = self.engine_of(d)
            for g in range(max(1, self.checked.get(d.id, 1)), len(hist)):
                window = {(e[1], e[2]) for e in log[times[g - 1] : times[g]]}
                prev = set(pop_keys(hist[g - 1]))
                carried = new = 0
                for ind in hist[g]:
                    k = ind_key(ind)
                    if k in window:
                        new += 1
                    elif k in prev:
                        carried += 1
                    elif k[1] is not None and np.isinf(k[1]) and self.has_cutoff(d.level):
                        self.cov("sentinel_individuals_skipped")
                    else:
                        self.v(
                            f"individual neither belongs to the preceding generation nor was evaluated after it: {cname}",
                            deme=d.id,
                            engine=eng,
                            generation=g,
                            intra_metaepoch=None if intra is None else bool(intra[g]),
                            fitness=k[1],
                        )
                        break
                is_intra = bool(intra[g]) if intra is not None and g < len(intra) else False
                self.cov(f"pairs.{eng}.{'intra' if is_intra else 'cross'}")
                if is_intra and carried and new:
                    gens = self.ctx.desc["levels"][d.level].get("gens")
                    self.nt((eng, gens, d.level == 0))
            self.checked[d.id] = len(hist)

    def on_step_end(self, tree):
        self._scan(tree)

    def on_run_end(self, tree):
        self._scan(tree)

    def on_run_aborted(self, tree):
        if tree is not None and not self.ctx.scope:
            self._scan(tree)


class C12Elitism(Monitor):
    prop = "C12"

    def __init__(self):
        super().__init__()
        self.checked = {}
        self.first_size = {}
        self._impr = set()

    def _scan(self, tree):
        ctx = self.ctx
        for d in self.all_demes(tree):
            cname = type(d).__name__
            if cname not in GEN_ENGINES:
                continue
            hist = d.history
            if not hist:
                continue
            lv = ctx.desc["levels"][d.level]
            eng = lv["engine"]
            want = len(hist[0]) if cname == "CMADeme" else lv.get("pop")
            elitist = (eng in SEA_ELITIST and lv.get("k_elites", 1) >= 1) or cname in ("DEDeme", "SHADEDeme")
            one_to_one = cname in ("DEDeme", "SHADEDeme")
            intra = _intra_flags(d)
            start = self.checked.get(d.id, 0)
            for g in range(start, len(hist)):
                self.cov("generations_size_checked")
                if cname == "SobolDeme" and want and (want & (want - 1)):
                    self.cov("generations_of_a_sobol_deme_whose_size_is_not_a_power_of_two")
                elif cname == "LHSDeme":
                    self.cov("generations_of_an_lhs_deme")
                elif eng == "mwea" and want and lv.get("k_elites", 1) >= 2 and want % lv["k_elites"]:
                    self.cov("generations_of_an_mwea_deme_whose_size_is_not_a_multiple_of_its_committee_size")
                if want is not None and len(hist[g]) != want:
                    self.v(f"generation size != configured population size: {cname}", deme=d.id, engine=eng, generation=g, size=len(hist[g]), configured=want)
                if g == 0 or not elitist:
                    continue
                a = [i.fitness for i in hist[g - 1]]
                b = [i.fitness for i in hist[g]]
                rev = ctx.maximize
                sa = sorted(a, reverse=rev)
                sb = sorted(b, reverse=rev)
                is_intra = bool(intra[g]) if intra is not None and g < len(intra) else False
                self.cov(f"pairs.{eng}.{'max' if rev else 'min'}")
                if eng in SEA_ELITIST and want is not None:
                    if want == 1:
                        self.cov(f"pairs_of_a_single_individual_population.{'max' if rev else 'min'}")
                    elif lv.get("k_elites", 1) >= want:
                        self.cov(f"pairs_with_every_parent_an_elite.{'max' if rev else 'min'}")
                if is_intra:
                    self.cov(f"intra_pairs.{eng}.{'max' if rev else 'min'}")
                if self.better(sa[0], sb[0]):
                    self.v(
                        f"best fitness of an elitist engine got worse from one generation to the next: {eng}",
                        deme=d.id,
                        generation=g,
                        intra_metaepoch=is_intra,
                        before=float(sa[0]),
                        after=float(sb[0]),
                        maximize=rev,
                    )
                elif self.better(sb[0], sa[0]):
                    self._impr.add((d.id, "improved"))
                else:
                    self._impr.add((d.id, "same"))
                if one_to_one and len(sa) == len(sb):
                    for k in range(len(sa)):
                        if self.better(sa[k], sb[k]):
                            self.v(
                                f"k-th best fitness got worse under one-to-one replacement: {eng}",
                                deme=d.id,
                                generation=g,
                                k=k,
                                before=float(sa[k]),
                                after=float(sb[k]),
                                intra_metaepoch=is_intra,
                            )
                            break
            self.checked[d.id] = len(hist)
            if (d.id, "improved") in self._impr and (d.id, "same") in self._impr:
                self.nt((eng, ctx.maximize, lv.get("k_elites"), lv.get("gens")))

    def on_tree_ready(self, tree):
        self._scan(tree)

    def on_step_end(self, tree):
        self._scan(tree)

    def on_run_end(self, tree):
        self._scan(tree)

    def on_run_aborted(self, tree):
        if tree is not None:
            self._scan(tree)


MUST_EVALUATE = {"CMADeme", "LHSDeme", "SobolDeme", "LocalDeme", "RandomSearchDeme"}


class C18Hibernation(Monitor):
    prop = "C18"

    def __init__(self):
        super().__init__()
        self.flags_after_round = None
        self.begin = {}
        self.participants = {}
        self.existing = set()
        self.gsc_false_at_begin = None
        self.last_run_verdict = None
        self.entered = []
        self.req_before = {}
        self.sleep_streak = Counter()
        self.cycles = {}

    def _hib(self):
        return bool(self.ctx.desc.get("options", {}).get("hibernation"))

    def _sig(self, d):
        return (d.n_evaluations, self.ctx.attributed(d.id), len(d.history), gen_digest(d.history[-1]) if d.history else "")

    def on_gsc(self, tree, verdict, kind, deme):
        if kind == "run":
            self.last_run_verdict = verdict

    def on_step_begin(self, tree):
        hib = self._hib()
        self.begin = {}
        self.entered = []
        self.req_before = {}
        n_act = 0
        all_asleep = True
        for d in self.all_demes(tree):
            f = bool(d._hibernating)
            n_act += d.is_active
            self.req_before[d.id] = d.n_evaluations
            if d.is_active and not (hib and f):
                all_asleep = False
            if not hib and f:
                self.v("a deme is flagged hibernating although hibernation is disabled", deme=d.id)
            if f:
                self.begin[d.id] = self._sig(d)
                self.sleep_streak[d.id] += 1
                if self.sleep_streak[d.id] >= 3:
                    self.cov("deme_asleep_3_consecutive_steps")
            else:
                if self.sleep_streak[d.id]:
                    self.cov(f"wake.{'root' if d.level == 0 else 'intermediate'}")
                    self.nt((len(tree.levels), self.ctx.desc["sprout"]["k"], self.engine_of(d)))
                self.sleep_streak[d.id] = 0
            # between rounds flags do not change
            if self.flags_after_round is not None and d.id in self.flags_after_round and d.is_active:
                if self.flags_after_round[d.id] != f:
                    self.v("hibernation flag changed between sprouting rounds", deme=d.id, after_round=self.flags_after_round[d.id], now=f)
        self.active_at_begin = n_act
        self.all_asleep = all_asleep and n_act > 0
        self.gsc_false_at_begin = self.last_run_verdict is False

    def on_deme_enter(self, deme):
        self.entered.append(deme)
        if self.ctx.desc.get("shared") and deme.level > 0 and len(deme.current_population) == 1:
            t = self.ctx.tree
            par = next((p_ for p_ in t.levels[deme.level - 1] if any(c is deme for c in p_.children)), None) if t is not None else None
            if par is not None and par.is_active and par._hibernating:
                self.cov("sleeping_parent_with_running_one_individual_child_on_shared_problem")
        if self._hib() and deme._hibernating:
            self.v(f"a hibernating deme ran a metaepoch: {type(deme).__name__}", deme=deme.id)

    def on_sprout_begin(self, tree):
        self.participants = {d.id: d for li, lvl in enumerate(tree.levels[:-1]) for d in lvl if d.is_active}
        self.existing = {d.id for d in self.all_demes(tree)}
        self.round_generated = {}
        self.round_removed_by = {}

    def on_generator(self, g, out, tree):
        self.round_generated = {d.id: len(c.individuals) for d, c in out.items()}
        self.round_generator = type(g).__name__

    def on_filter(self, f, before, after, tree):
        for d0, inds in before.items():
            kept = next((c.individuals for d, c in after.items() if d is d0), [])
            if len(kept) < len(inds):
                self.round_removed_by.setdefault(d0.id, []).append(type(f).__name__)

    def _why_asleep(self, tree):
        """Mechanism by which the round left every active deme asleep (part of the finding's key)."""
        sleepers = [d for lvl in tree.levels[:-1] for d in lvl if d.is_active and d._hibernating]
        if not sleepers:
            return "no sleeping non-leaf deme"
        gen_ = getattr(self, "round_generated", {})
        gname = getattr(self, "round_generator", "?")
        removed = getattr(self, "round_removed_by", {})
        classes = set()
        for d in sleepers:
            n = gen_.get(d.id)
            if n is None:
                if gname == "NBCGeneratorWithLocalMethod" and d.level == len(tree.levels) - 2:
                    classes.add("local-method generator offers nothing for an active deme of the last-but-one level")
                else:
                    classes.add(f"{gname} returned no entry for an active non-leaf deme")
            elif n == 0:
                classes.add(f"{gname} returned an empty candidate list for an active non-leaf deme")
            elif removed.get(d.id):
                classes.add("every generated candidate was rejected by the filter chain")
            else:
                classes.add("candidates were generated and not rejected, yet nothing was sprouted")
        self.last_rejecting_filters = sorted({f for d in sleepers for f in removed.get(d.id, [])})
        return " / ".join(sorted(classes))

    def on_sprout_end(self, tree, seeds):
        hib = self._hib()
        if seeds is None:
            self.cov("round_without_seed_record")
            return
        self.cov("rounds")
        got = {p.id for p in seeds.keys()}
        flags = {}
        n_levels = len(tree.levels)
        for li, lvl in enumerate(tree.levels):
            for d in lvl:
                f = bool(d._hibernating)
                flags[d.id] = f
                if not hib:
                    if f:
                        self.v("a deme is flagged hibernating although hibernation is disabled", deme=d.id)
                    continue
                if d.id not in self.existing:
                    self.cov("fresh_deme_flag_checked" + ("_intermediate" if li < n_levels - 1 else ""))
                    if f:
                        self.v(
                            "a deme created by the sprouting round is hibernating at birth",
                            deme=d.id,
                            level=li,
                            levels=n_levels,
                        )
                    continue
                if li == n_levels - 1:
                    if f:
                        self.v("a leaf deme is flagged hibernating", deme=d.id)
                    continue
                if d.id in self.participants and d.is_active:
                    took = [c for c in d.children if c.id not in self.existing]
                    if (d.id in got) != bool(took):
                        self.cov("round_with_seeds_returned_but_no_sprout_taken")
                    want = not took  # the rule speaks of sprouts *taken*, not of seeds offered
                    if self.ctx.desc.get("entry") == "hand":
                        self.cov("flag_rule_checked_in_a_round_driven_by_hand" + ("" if self.ctx.desc.get("hand_bump") else "_with_the_counter_left_alone"))
                    self.cov(f"flag_rule_checked.{'sleep' if want else 'awake'}.{'root' if li == 0 else 'intermediate'}")
                    if f != want:
                        self.v(
                            "hibernation flag after a sprouting round != (the round took no sprout from the deme)",
                            deme=d.id,
                            flag=f,
                            sprouted_from=d.id in got,
                        )
        self.flags_after_round = flags

    def on_step_end(self, tree):
        ctx = self.ctx
        for d in self.all_demes(tree):
            snap = self.begin.get(d.id)
            if snap is not None:
                now = self._sig(d)
                self.cov("sleeping_deme_step_checks")
                if now[0] != snap[0] or now[1] != snap[1]:
                    self.v(f"a hibernating deme evaluated the objective: {type(d).__name__}", deme=d.id)
                if now[2] != snap[2] or now[3] != snap[3]:
                    self.v(f"history of a hibernating deme changed: {type(d).__name__}", deme=d.id)
        # progress
        if self.gsc_false_at_begin and self.active_at_begin > 0:
            self.cov("progress_steps_checked")
            if len(ctx.log) == ctx.step_start_idx:
                requested = sum(d.n_evaluations - self.req_before.get(d.id, d.n_evaluations) for d in self.all_demes(tree))
                if not self.entered:
                    key = (
                        "zero-evaluation metaepoch while every active deme is hibernating: " + self._why_asleep(tree)
                        if self.all_asleep
                        else "zero-evaluation metaepoch: no active deme was run"
                    )
                    self.v(key, active=self.active_at_begin, step=ctx.step, gsc=ctx.desc["gsc"]["k"], sprout=ctx.desc["sprout"]["k"], filters_that_removed_candidates=getattr(self, "last_rejecting_filters", None))
                elif requested > 0:
                    self.cov("zero_eval_step_due_to_cutoff_refusals")
                else:
                    must = [d for d in self.entered if type(d).__name__ in MUST_EVALUATE]
                    if must:
                        self.v(f"a running deme performed a metaepoch without any evaluation: {type(must[0]).__name__}", deme=must[0].id)
                    else:
                        self.cov("zero_eval_step_by_mutation_chance")
        g = ctx.desc["gsc"]["k"]
        if self._hib() and g in ("evals", "fevals"):
            self._eval_gsc = True

    def on_run_end(self, tree):
        if self._hib() and self.ctx.desc["gsc"]["k"] in ("evals", "fevals", "precision") and self.ctx.first_true is not None:
            self.cov("eval_based_gsc_reached_with_hibernation")
