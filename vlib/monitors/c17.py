"""C17 - bound repair: direct enumeration with an exact rational oracle.

Floats are rationals.  The oracle computes, with fractions.Fraction, the exact box, the exact range
R = upper - lower (not its rounded float) and the exact image of every input coordinate under
clip / reflect (mirror about the violated faces, period 2R) / toroidal (period R).
"""
import math
from collections import Counter
from fractions import Fraction

import numpy as np

from .. import gen

METHODS = ["clip", "reflect", "toroidal"]
EPS = 2.0**-52


def ulp(x: float) -> float:
    return math.ulp(x) if x != 0 else math.ulp(0.0)


def nudge(x: float, k: int) -> float:
    for _ in range(abs(k)):
        x = math.nextafter(x, math.inf if k > 0 else -math.inf)
    return x


def exact_image(x: Fraction, lo: Fraction, hi: Fraction, method: str) -> Fraction:
    R = hi - lo
    if method == "clip":
        return min(max(x, lo), hi)
    if method == "toroidal":
        return lo + ((x - lo) % R)
    t = (x - lo) % (2 * R)
    return lo + t if t <= R else lo + 2 * R - t


def gen_points(rng, lo: float, hi: float):
    """(class, value) pairs for one coordinate."""
    R = hi - lo
    pts = []
    pts += [("interior", lo + R * rng.random()) for _ in range(3)]
    pts += [("interior", lo + R * 0.5)]
    pts += [("on-lower-face", lo), ("on-upper-face", hi)]
    for k in (1, 2):
        pts += [("ulp-inside-lower", nudge(lo, k)), ("ulp-inside-upper", nudge(hi, -k))]
        pts += [("ulp-outside-lower", nudge(lo, -k)), ("ulp-outside-upper", nudge(hi, k))]
    for k in (1, 2, 3, 7, 10, 1000, 10**6):
        for base, name in ((lo, "lower"), (hi, "upper")):
            for sgn in (-1, 1):
                v = base + sgn * k * R
                pts.append((f"multiple-of-range-from-{name}", v))
                pts.append((f"multiple-of-range-from-{name}-ulp", nudge(v, rng.choice([-1, 1]))))
    for k in (0, 1, 2, 5, 1001):
        for sgn in (-1, 1):
            pts.append(("half-period", lo + sgn * (k + 0.5) * R))
    for _ in range(6):
        mag = 10 ** rng.uniform(0, 9)
        pts.append(("far", lo + rng.choice([-1, 1]) * mag * R * rng.random()))
    for _ in range(4):
        pts.append(("slightly-outside", rng.choice([lo - R * rng.random() * 0.5, hi + R * rng.random() * 0.5])))
    # magnitudes that have nothing to do with the box (|x - lower| / range may exceed the largest double although both are ordinary)
    for v in (1.0, -1.0, 1e150, -1e150, 1e300, -1e300, 12345.678):
        if not (lo <= v <= hi):
            pts.append(("absolute-magnitude", v))
    out = []
    for c, v in pts:
        # inputs whose distance to a bound is itself not a finite double (|x - bound| > 1.8e308) are left out: no formulation in
        # double precision can even form the offset it has to reduce (see DESIGN 10.5)
        if math.isfinite(v) and math.isfinite(v - lo) and math.isfinite(v - hi):
            out.append((c, float(v)))
    return out


def make_case(seed, idx, tier):
    rng = gen.case_rng("C17", seed, idx)
    d = rng.randint(1, 4)
    cls = gen.BOX_CLASSES[idx % len(gen.BOX_CLASSES)]
    box = gen.gen_box(rng, d, cls)
    if idx % 16 == 11:
        d = rng.randint(1, 3)
        pool = [[-6e307, 6e307], [-8.9e307, 8.9e307], [0.0, 1.5e308], [-1.7e308, 1e300], [-4.5e307, 4.5e307]]
        box = {"cls": "huge", "bounds": [list(rng.choice(pool)) for _ in range(d)]}
    if idx % 8 == 7:
        # one box whose coordinates live on wildly different scales (allowances must be per coordinate)
        d = rng.randint(2, 4)
        pool = [[0.0, 1e9], [0.0, 1e-9], [-1e6, 1e6], [1.0, 1.0 + 1e-3], [-0.1, 0.2], [0.0, 1e-6], [-5.0, 5.0], [1e6, 1e6 + 1.0],
                [0.0, 1e-16], [-3e-17, 5e-17], [1e-300, 3e-300],  # ranges far below machine epsilon in absolute terms are ordinary boxes too
                [-6e307, 6e307], [-8.9e307, 8.9e307], [0.0, 1.5e308], [-1.7e308, 1e300],
                [0.0, 1e-310], [1e10, 1e10 + 1e-5], [-1e-200, 1e-200]]  # ... and ranges so small that (x - lower) / range is not a finite double for ordinary x  # finite boxes whose range is finite but twice the range is not
        box = {"cls": "xscale", "bounds": [list(rng.choice(pool)) for _ in range(d)]}
    cols = [gen_points(rng, b[0], b[1]) for b in box["bounds"]]
    m = max(len(c) for c in cols)
    rows = []
    classes = []
    for r in range(m):
        row, cl = [], []
        for j in range(d):
            c, v = cols[j][(r + 7 * j) % len(cols[j])] if j else cols[j][r % len(cols[j])]
            row.append(v.hex())
            cl.append(c)
        rows.append(row)
        classes.append(cl)
    return {"kind": "c17", "box": box, "points_hex": rows, "classes": classes, "idx": idx}


def run_case(desc):
    from pyhms.demes.single_pop_eas.common import apply_bounds

    cov = Counter()
    nontrivial = set()
    violations = []
    bounds = np.array(desc["box"]["bounds"], dtype=np.float64)
    pts = np.array([[float.fromhex(h) for h in row] for row in desc["points_hex"]], dtype=np.float64)
    classes = desc["classes"]
    bcls = desc["box"]["cls"]
    d = bounds.shape[0]
    F = [(Fraction(float(bounds[j, 0])), Fraction(float(bounds[j, 1]))) for j in range(d)]

    def viol(key, **detail):
        if sum(1 for v in violations if v["key"] == key) < 3:
            violations.append({"property": "C17", "key": key, "detail": detail})

    held = []  # results a caller still holds while it goes on calling: (method, the returned object, a private copy of its content)
    for method in METHODS:
        src = pts.copy()
        out = apply_bounds(src, bounds, method)
        held.append((method, out, np.array(out, dtype=np.float64, copy=True)))
        out = np.asarray(out, dtype=np.float64)
        if not np.array_equal(src, pts, equal_nan=True):
            viol(f"{method}: the input array was modified in place")
        if out.shape != pts.shape:
            viol(f"{method}: result has a different shape", shape=list(out.shape))
            continue
        for i in range(pts.shape[0]):
            for j in range(d):
                x = float(pts[i, j])
                o = float(out[i, j])
                lo, hi = float(bounds[j, 0]), float(bounds[j, 1])
                pc = classes[i][j]
                cov[f"cell.{method}.{bcls}.{pc}"] += 1
                cov["coordinates_checked"] += 1
                inside = lo <= x <= hi
                if not inside:
                    nontrivial.add((method, bcls, pc))
                wit = dict(method=method, lower=lo.hex(), upper=hi.hex(), x=x.hex(), out=o.hex() if o == o else "nan", lower_dec=lo, upper_dec=hi, x_dec=x, out_dec=o, point_class=pc)
                if not (lo <= o <= hi):
                    side = "nan" if o != o else ("above the upper bound" if o > hi else "below the lower bound")
                    where = "in-box input" if inside else "out-of-box input"
                    viol(f"{method}: result {side} ({where})", **wit)
                    continue
                if inside:
                    tol = 4 * ulp(max(abs(x), abs(lo), abs(hi)))
                    if abs(o - x) > tol:
                        face = "on the upper face" if x == hi else ("on the lower face" if x == lo else "strictly inside")
                        viol(f"{method}: a coordinate that was already in the box was moved ({face})", **wit)
                    continue
                fx, (flo, fhi) = Fraction(x), F[j]
                img = exact_image(fx, flo, fhi, method)
                tol = Fraction(8 * EPS) * (abs(fx) + abs(flo) + abs(fhi))
                err = abs(Fraction(o) - img)
                if method == "clip":
                    if Fraction(o) != img:
                        viol("clip: result is not the nearest face", **wit)
                    continue
                R = fhi - flo
                if method == "toroidal":
                    err = min(err, R - err) if err <= R else err
                if tol >= R:
                    cov["congruence_clause_vacuous"] += 1
                    continue
                cov["congruence_checked"] += 1
                if err > tol:
                    viol(f"{method}: result is not congruent to the input as the method prescribes", exact_image=float(img), error=float(err), tolerance=float(tol), **wit)
    # a second round of calls with other out-of-box inputs of the same shape, then every result handed out earlier is looked at again
    shifted = pts + (bounds[:, 1] - bounds[:, 0]) * 0.37
    shifted = np.where(np.isfinite(shifted), shifted, pts)
    for method in METHODS:
        apply_bounds(shifted.copy(), bounds, method)
    for method, obj_, content in held:
        cov["results_re-read_after_later_calls"] += 1
        if not np.array_equal(np.asarray(obj_, dtype=np.float64), content, equal_nan=True):
            viol(f"{method}: a result handed out earlier changed when apply_bounds was called again")
    # integer-typed input arrays are real vectors too: the result must not be truncated to the input's dtype
    if desc.get("idx", 0) % 4 == 3:
        ints = np.array([[k + j for j in range(d)] for k in (-7, -1, 0, 1, 2, 9, 10, 1000)], dtype=np.int64)
        for method in METHODS:
            out = np.asarray(apply_bounds(ints.copy(), bounds, method), dtype=np.float64)
            cov["integer_dtype_arrays"] += 1
            for i in range(ints.shape[0]):
                for j in range(d):
                    x, o = float(ints[i, j]), float(out[i, j])
                    lo, hi = float(bounds[j, 0]), float(bounds[j, 1])
                    if not (lo <= o <= hi):
                        viol(f"{method}: result outside the box for an integer-typed input array", lower=lo, upper=hi, x=x, out=o)
                    elif lo <= x <= hi:
                        if abs(o - x) > 4 * ulp(max(abs(x), abs(lo), abs(hi))):
                            viol(f"{method}: in-box coordinate of an integer-typed input array was moved", lower=lo, upper=hi, x=x, out=o)
                    elif method != "clip":
                        img = exact_image(Fraction(x), F[j][0], F[j][1], method)
                        tol = Fraction(8 * EPS) * (abs(Fraction(x)) + abs(F[j][0]) + abs(F[j][1]))
                        R = F[j][1] - F[j][0]
                        err = abs(Fraction(o) - img)
                        if method == "toroidal" and err <= R:
                            err = min(err, R - err)
                        if tol < R and err > tol:
                            viol(f"{method}: result for an integer-typed input array is not congruent to the input", lower=lo, upper=hi, x=x, out=o, exact_image=float(img))
    # boxes given as integer-typed arrays (np.array([(-5, 5)]) is one; the documentation writes bounds that way): the range is a real number,
    # not an element of the array's integer type
    if desc.get("idx", 0) % 4 == 1:
        for dt, lo_i, hi_i in ((np.int8, -100, 100), (np.int16, -30000, 30000), (np.int32, -(2**31) + 5, 2**31 - 5), (np.int64, -5, 7), (np.uint8, 3, 250)):
            ib = np.array([[lo_i, hi_i]] * 2, dtype=dt)
            R_ = hi_i - lo_i
            xs = np.array([[lo_i - 0.25 * R_, hi_i + 0.5 * R_], [hi_i + 1.0, lo_i - 1.0], [lo_i + 0.5 * R_, hi_i + 2.25 * R_], [float(lo_i), float(hi_i)]], dtype=np.float64)
            for method in METHODS:
                try:
                    out = np.asarray(apply_bounds(xs.copy(), ib, method), dtype=np.float64)
                except Exception as e:
                    viol(f"{method}: raised {type(e).__name__} for a box given as an integer-typed array", dtype=np.dtype(dt).name, error=repr(e)[:100])
                    continue
                cov["integer_typed_bounds_arrays"] += 1
                for i in range(xs.shape[0]):
                    for j in range(2):
                        x, o = float(xs[i, j]), float(out[i, j])
                        img = exact_image(Fraction(x), Fraction(lo_i), Fraction(hi_i), method)
                        tol = Fraction(8 * EPS) * (abs(Fraction(x)) + abs(lo_i) + abs(hi_i))
                        err = abs(Fraction(o) - img) if o == o else None
                        if err is not None and method == "toroidal" and err <= R_:
                            err = min(err, R_ - err)
                        if err is None or not (lo_i <= o <= hi_i) or err > tol:
                            viol(f"{method}: wrong result for a box given as an integer-typed array whose range does not fit the array's type" if R_ > np.iinfo(dt).max else f"{method}: wrong result for a box given as an integer-typed array",
                                 dtype=np.dtype(dt).name, lower=lo_i, upper=hi_i, x=x, out=o if o == o else "nan", exact_image=float(img))
    sample = {"box": desc["box"], "n_points": len(desc["points_hex"]), "first_points": desc["points_hex"][:3], "classes": classes[:3]}
    return {"violations": violations, "cov": cov, "nontrivial": [list(x) for x in nontrivial], "sample": sample}
