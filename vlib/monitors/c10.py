"""C10 - sprout candidates come from the right populations; filters keep the best.

Reference-specification oracles for generators and filters (`check_generator`, `check_filter`), applied
(a) directly: generators and filters called on synthetic trees (real DemeTree objects shaped by the harness)
    and synthetic candidate sets, and
(b) through the FilterTap / GeneratorTap on every application during real runs (monitor C10Sprout).
"""
import random
from collections import Counter

import numpy as np

from .. import gen, harness
from ..harness import canon
from ..props import run_result
from .base import Monitor


def _better(a, b, maximize):
    return a > b if maximize else a < b


def check_generator(g, out, tree, maximize, viol, cov):
    name = type(g).__name__
    cov[f"generator.{name}"] += 1
    n_levels = len(tree.levels)
    if name == "NBCGeneratorWithLocalMethod":
        allowed = {id(d): d for lvl in tree.levels[:-2] for d in lvl if d.is_active}
        finished = {id(d): d for d in (tree.levels[-2] if n_levels >= 2 else []) if not d.is_active and d.started_at + len(d._history) == tree.metaepoch_count}
    else:
        allowed = {id(d): d for lvl in tree.levels[:-1] for d in lvl if d.is_active}
        finished = {}
    for deme, cand in out.items():
        if id(deme) in finished:
            cov["generator.just_finished_parent"] += 1
            hist = deme.all_individuals
            for ind in cand.individuals:
                if not any(ind is h for h in hist):
                    viol(f"{name}: candidate of a just-finished deme is not an individual of its history", deme=deme.id)
                elif any(_better(h.fitness, ind.fitness, maximize) for h in hist):
                    viol(f"{name}: candidate of a just-finished deme is not its best individual", deme=deme.id)
            continue
        if id(deme) not in allowed:
            why = "inactive" if not deme.is_active else ("leaf" if deme.level >= n_levels - 1 else "not eligible")
            viol(f"{name}: candidates offered for a deme that is not an active non-leaf deme ({why})", deme=deme.id, level=deme.level)
            continue
        cur = deme.current_population
        for ind in cand.individuals:
            cov["generator.candidates_checked"] += 1
            if not any(ind is c for c in cur):
                viol(f"{name}: candidate is not an individual of the deme's current population", deme=deme.id, in_history=any(ind is h for h in deme.all_individuals))
        if name == "BestPerDeme":
            if len(cand.individuals) != 1:
                viol("BestPerDeme: not exactly one candidate per deme", deme=deme.id, n=len(cand.individuals))
            elif any(_better(c.fitness, cand.individuals[0].fitness, maximize) for c in cur):
                viol("BestPerDeme: candidate is not the deme's current best", deme=deme.id, maximize=maximize)
    if name in ("BestPerDeme", "NBC_Generator"):
        missing = [d.id for k, d in allowed.items() if not any(x is d for x in out.keys())]
        if missing:
            viol(f"{name}: an active non-leaf deme got no candidate entry", demes=missing[:4])


def check_filter(f, before, after, tree, maximize, viol, cov):
    """before: {deme: [individuals]} snapshot taken before the call; after: the dict the filter returned."""
    name = type(f).__name__
    cov[f"filter.{name}.{'max' if maximize else 'min'}"] += 1
    removed_any = kept_any = False
    # filters only ever remove
    for deme, cand in after.items():
        src = None
        for d0, inds in before.items():
            if d0 is deme:
                src = inds
        if src is None:
            viol(f"{name}: result contains a deme that was not in the input", deme=getattr(deme, "id", "?"))
            continue
        ids = [id(i) for i in src]
        out_ids = [id(i) for i in cand.individuals]
        if len(set(out_ids)) != len(out_ids):
            viol(f"{name}: a candidate appears twice in the result", deme=deme.id)
        for i in out_ids:
            if i not in ids:
                viol(f"{name}: result contains a candidate that was not in the input (filters may only remove)", deme=deme.id)
        removed_any = removed_any or len(out_ids) < len(ids)
        kept_any = kept_any or bool(out_ids)
    for d0 in before:
        if not any(d0 is d for d in after):
            if before[d0]:
                removed_any = True
    get_after = lambda d0: next((c.individuals for d, c in after.items() if d is d0), [])  # noqa: E731

    if name == "DemeLimit":
        lim = f.limit
        for d0, inds in before.items():
            kept = get_after(d0)
            want = min(lim, len(inds))
            cov["filter.DemeLimit.applications"] += 1
            if len(inds) > lim:
                cov[f"filter.DemeLimit.had_to_choose.{'max' if maximize else 'min'}"] += 1
            if len(kept) != want:
                viol("DemeLimit: does not keep exactly min(limit, available)", limit=lim, available=len(inds), kept=len(kept))
            kid = {id(i) for i in kept}
            dropped = [i for i in inds if id(i) not in kid]
            if kept and dropped:
                worst_kept = min(kept, key=lambda i: (i.fitness if maximize else -i.fitness))
                for x in dropped:
                    if _better(x.fitness, worst_kept.fitness, maximize):
                        viol("DemeLimit: a dropped candidate is strictly better than a kept one", maximize=maximize, dropped=float(x.fitness), kept=float(worst_kept.fitness), limit=lim)
                        break
    elif name == "LevelLimit":
        L = f.limit
        for level in range(len(tree.levels) - 1):
            offered = [(d0, i) for d0, inds in before.items() if d0.level == level for i in inds]
            if not offered:
                continue
            kept = [i for d0, _ in before.items() if d0.level == level for i in get_after(d0)]
            active_below = sum(1 for d in tree.levels[level + 1] if d.is_active)
            free = max(0, L - active_below)
            cov["filter.LevelLimit.applications"] += 1
            fits = [i.fitness for _, i in offered]
            distinct = len(set(fits)) == len(fits)
            tie = "distinct" if distinct else ("all_equal" if len(set(fits)) == 1 else "ties")
            if len(offered) > free:
                cov[f"filter.LevelLimit.had_to_choose.{'max' if maximize else 'min'}.{tie}"] += 1
            if len(kept) > free:
                viol("LevelLimit: keeps more candidates than free slots on the level", limit=L, active_below=active_below, kept=len(kept), offered=len(offered))
            kid = {id(i) for i in kept}
            dropped = [i for _, i in offered if id(i) not in kid]
            if kept and dropped:
                worst_kept = min(kept, key=lambda i: (i.fitness if maximize else -i.fitness))
                for x in dropped:
                    if _better(x.fitness, worst_kept.fitness, maximize):
                        viol("LevelLimit: a dropped candidate is strictly better than a kept one", maximize=maximize, dropped=float(x.fitness), kept=float(worst_kept.fitness), limit=L, active_below=active_below)
                        break
            if distinct and len(kept) != min(free, len(offered)):
                viol("LevelLimit: does not fill exactly the free slots although all fitness values are distinct", limit=L, active_below=active_below, free=free, offered=len(offered), kept=len(kept), maximize=maximize)
    elif name == "SkipSameSprout":
        for d0, inds in before.items():
            kept = get_after(d0)
            kid = {id(i) for i in kept}
            own_seeds = [canon(ch._sprout_seed.genome) for ch in d0.children]
            target = tree.levels[d0.level + 1] if d0.level + 1 < len(tree.levels) else []
            level_seeds = [canon(d._sprout_seed.genome) for d in target if d._sprout_seed is not None]
            cov["filter.SkipSameSprout.applications"] += 1
            for i in inds:
                x = canon(i.genome)
                if id(i) in kid:
                    if any(np.array_equal(x, s) for s in own_seeds):
                        viol("SkipSameSprout: lets through a candidate numerically equal to a seed already sprouted from the same parent", deme=d0.id)
                    cov["filter.SkipSameSprout.passed"] += 1
                else:
                    cov["filter.SkipSameSprout.rejected"] += 1
                    clearly_different = all(np.any(np.abs(x - s) > 1e-3 * (1 + np.abs(x))) for s in level_seeds)
                    if clearly_different:
                        viol("SkipSameSprout: rejects a candidate that differs from every existing seed of the target level", deme=d0.id, n_level_seeds=len(level_seeds))
    if removed_any and kept_any:
        return True
    return False


class C10Sprout(Monitor):
    """Tap-side monitor: the same oracles on every generator / filter application of a real run."""

    prop = "C10"

    def _viol(self, key, **detail):
        self.v(key, **detail)

    def on_generator(self, g, out, tree):
        check_generator(g, out, tree, self.ctx.maximize, self._viol, self.ctx.cov)

    def on_filter(self, f, before, after, tree):
        if check_filter(f, before, after, tree, self.ctx.maximize, self._viol, self.ctx.cov):
            occ = tuple(sum(1 for d in lvl if d.is_active) for lvl in tree.levels)
            self.nt(("run", type(f).__name__, self.ctx.maximize, occ))


# ----------------------------------------------------------------------------------------------------
# direct workload


def make_case(seed, idx, tier):
    rng = gen.case_rng("C10", seed, idx)
    if idx % 4 == 3:
        # a real run with composed mechanisms, observed through the taps
        prof = {
            "dim": (2, 3),
            "levels": [2, 3, 3],
            "roots": gen.POP_ENGINES + ["lhs", "sobol"],
            "inners": gen.POP_ENGINES + ["cma"],
            "sprout": rng.choice(["custom", "custom", "nbc", "simple"]),
            "gscs": ["melimit"],
            "lscs": ["user", "melimit", "dontstop"],
            "maximize": bool((idx // 4) % 2),
            "fams": ["rastrigin", "funnel", "plateau", "sphere"],
            "allow_cutoff": False,
            "entry": "tree",
        }
        d = gen.gen_tree_case(rng, prof)
        d["kind"] = "c10run"
        if (idx // 4) % 2 and d["gsc"]["k"] != "precision":
            d["reuse"] = True  # the same mechanism / filter objects serve a second tree
            if (idx // 8) % 2:
                # short repeated runs in which an elitist parent keeps re-proposing the seed it already sprouted
                rmin = min(b[1] - b[0] for b in d["box"]["bounds"])
                d["gsc"] = {"k": "melimit", "n": rng.choice([2, 3, 3, 4])}
                d["sprout"] = {"k": "custom", "gen": {"k": "best"}, "dfilters": [{"k": "far", "d": rmin * 1e-6, "ord": 2}],
                               "tfilters": [{"k": "levellimit", "n": 4}, {"k": "skipsame"}], "ll": 4}
                for lv in d["levels"]:
                    lv["lsc"] = {"k": "dontstop"}
        return d
    prof = {
        "dim": (2, 3),
        "n_levels": rng.choice([2, 3, 3]),
        "roots": gen.POP_ENGINES,
        "inners": gen.POP_ENGINES,
        "leaves": gen.POP_ENGINES + ["cma", "local"],
        "gsc": "melimit",
        "lscs": ["dontstop"],
        "maximize": bool((idx // 2) % 2),
        "stacks": False,
        "entry": "tree",
        "fams": ["rastrigin", "funnel", "plateau", "sphere"],
        "max_pop": 14,
        "hibernation": False,
    }
    d = gen.gen_tree_case(rng, prof)
    d["gsc"] = {"k": "melimit", "n": 50}
    d["kind"] = "c10direct"
    d["shape_seed"] = rng.randint(0, 2**31 - 1)
    d["warm_steps"] = rng.randint(0, 2)
    return d


def run_case(desc):
    if desc["kind"] == "c10run":
        from ..props import run_desc

        return run_desc(desc, lambda: [C10Sprout()])
    return run_direct(desc)


def run_direct(desc):
    from pyhms.core.individual import Individual
    from pyhms.sprout import sprout_filters as sf
    from pyhms.sprout import sprout_generators as sg
    from pyhms.sprout.sprout_candidates import DemeCandidates, DemeFeatures
    from pyhms.sprout.sprout_mechanisms import SproutMechanism

    rng = random.Random(desc["shape_seed"])
    ctx = harness.run_case(desc, [], run=False)
    res = run_result(ctx, desc)
    cov = res["cov"]
    if ctx.aborted or ctx.tree is None:
        return res
    tree = ctx.tree
    maximize = ctx.maximize
    nontrivial = []

    def viol(key, **detail):
        ctx.violation("C10", key, detail)

    with harness.activate(ctx):
        try:
            for _ in range(desc["warm_steps"]):
                tree.run_step()
            # shape: extra children with chosen seeds, then activity flags
            for level in range(len(tree.levels) - 1):
                for parent in list(tree.levels[level]):
                    if rng.random() < 0.7:
                        m = rng.randint(1, 3)
                        seeds = rng.sample(parent.current_population, min(m, len(parent.current_population)))
                        tree._do_sprout({parent: DemeCandidates(individuals=seeds, features=DemeFeatures())})
            for lvl in tree.levels[1:]:
                for d in lvl:
                    if rng.random() < 0.4:
                        d._active = False
            if rng.random() < 0.3 and len(tree.levels) >= 2:
                for d in tree.levels[-2]:
                    if d.level > 0 and rng.random() < 0.5:
                        d._active = False
            if rng.random() < 0.5:
                tree.metaepoch_count = max(tree.metaepoch_count, 1)
        except harness.WatchdogAbort:
            return res
        except Exception as e:
            cov["direct_shape_failed." + type(e).__name__] += 1
            return res
    cov["synthetic_trees"] += 1
    cov[f"synthetic_height.{len(tree.levels)}"] += 1
    prob = tree.root._problem
    dim = len(ctx.lo)

    # ---- generators
    gens = [sg.BestPerDeme(), sg.NBC_Generator(rng.choice([1.0, 2.0, 3.0]), rng.choice([1.0, 0.7, 0.5]))]
    if len(tree.levels) >= 2:
        gens.append(sg.NBCGeneratorWithLocalMethod(rng.choice([1.0, 2.0]), rng.choice([1.0, 0.7])))
    import warnings

    for g in gens:
        try:
            with warnings.catch_warnings():
                warnings.simplefilter("ignore")
                out = g(tree)
        except Exception as e:
            cov[f"generator_raised.{type(g).__name__}.{type(e).__name__}"] += 1
            continue
        check_generator(g, out, tree, maximize, viol, cov)
        cov["generator_calls"] += 1

    # ---- synthetic candidate sets
    def mk_ind(x, fit):
        return Individual(np.array(x, dtype=np.float64), prob, float(fit))

    def rand_x():
        return [rng.uniform(float(ctx.lo[j]), float(ctx.hi[j])) for j in range(dim)]

    parents = [d for lvl in tree.levels[:-1] for d in lvl]
    for rep in range(8):
        tie = rng.choice(["distinct", "distinct", "ties", "all_equal", "cut_tie", "near_ties"])
        cands = {}
        chosen = [p for p in parents if rng.random() < 0.7] or parents[:1]
        pool_fit = [round(rng.uniform(-5, 5), 6) for _ in range(40)]
        used = set()
        for p in chosen:
            n = rng.randint(0, 12 if rep % 2 else 4)
            inds = []
            for _ in range(n):
                if tie == "near_ties":
                    # pairwise distinct values that differ only beyond the 10th significant digit
                    fit = 7.5 * (1.0 + rng.randint(1, 10**6) * 1e-13)
                    while fit in used:
                        fit = 7.5 * (1.0 + rng.randint(1, 10**6) * 1e-13)
                    used.add(fit)
                elif tie == "all_equal":
                    fit = 1.25
                elif tie == "ties":
                    fit = rng.choice(pool_fit[:5])
                elif tie == "cut_tie":
                    fit = rng.choice(pool_fit[:3] + [rng.uniform(-5, 5)])
                else:
                    fit = rng.uniform(-5, 5)
                    while fit in used:
                        fit = rng.uniform(-5, 5)
                    used.add(fit)
                kind = rng.random()
                if kind < 0.2 and p.children:
                    x = canon(rng.choice(p.children)._sprout_seed.genome).tolist()  # exact duplicate of an existing seed
                elif kind < 0.3 and p.children:
                    s = canon(rng.choice(p.children)._sprout_seed.genome)
                    x = (s * (1 + 1e-7)).tolist()  # near-duplicate (grey zone: not judged)
                elif kind < 0.45 and p.level + 1 < len(tree.levels) and len(tree.levels[p.level + 1]) >= 2:
                    # every coordinate taken from *some* existing seed of the target level, but from different ones: a new point
                    seeds_ = [canon(d_._sprout_seed.genome) for d_ in tree.levels[p.level + 1] if d_._sprout_seed is not None]
                    x = [float(rng.choice(seeds_)[j]) for j in range(dim)]
                else:
                    x = rand_x()
                inds.append(mk_ind(x, fit))
            cands[p] = DemeCandidates(individuals=inds, features=DemeFeatures(nbc_mean_distance=rng.choice([0.0, 0.01, 0.5])))
        filters = [
            sf.DemeLimit(rng.randint(1, 5)),
            sf.LevelLimit(rng.randint(1, 5)),
            sf.SkipSameSprout(),
            sf.FarEnough(rng.choice([1e-3, 0.1, 1.0]) * float(np.min(ctx.hi - ctx.lo)), rng.choice([1, 2, np.inf])),
            sf.NBC_FarEnough(rng.choice([0.5, 2.0]), rng.choice([1, 2, np.inf]), rng.random() < 0.5),
        ]
        order = rng.sample(filters, rng.randint(2, len(filters)))
        cov["chain_order." + ">".join(type(f).__name__ for f in order)[:80]] += 1
        cur = cands
        for f in order:
            before = {d: list(c.individuals) for d, c in cur.items()}
            try:
                after = f(cur, tree)
            except Exception as e:
                cov[f"filter_raised.{type(f).__name__}.{type(e).__name__}"] += 1
                # a filter is a function from candidate sets to candidate sets: on a well-formed tree and well-formed candidates it
                # has to answer (possibly with nothing), not raise
                occ_ = [sum(1 for d_ in lvl if d_.is_active) for lvl in tree.levels]
                n_per_level = {lv_: sum(len(i_) for d_, i_ in before.items() if d_.level == lv_) for lv_ in range(len(tree.levels) - 1)}
                empty_full = type(f).__name__ == "LevelLimit" and any(n_per_level.get(lv_, 0) == 0 and occ_[lv_ + 1] > f.limit for lv_ in range(len(tree.levels) - 1))
                viol(
                    f"{type(f).__name__}: raised {type(e).__name__} instead of returning candidates" + (" (no candidates for a level that holds more active demes than the limit)" if empty_full else ""),
                    active_per_level=occ_, candidates_per_level=n_per_level, limit=getattr(f, "limit", None), error=repr(e)[:120],
                )
                break
            cov["filter_applications"] += 1
            if check_filter(f, before, after, tree, maximize, viol, cov):
                occ = tuple(sum(1 for d in lvl if d.is_active) for lvl in tree.levels)
                nontrivial.append([type(f).__name__, maximize, tie, list(occ)])
            cur = after
        # a whole mechanism: result must only contain demes with non-empty candidate lists, all from the generator
        if rep == 0:
            mech = SproutMechanism(rng.choice(gens[:2]), [sf.DemeLimit(rng.randint(1, 3))], [sf.LevelLimit(rng.randint(1, 4))] + ([sf.SkipSameSprout()] if rng.random() < 0.5 else []))
            try:
                with warnings.catch_warnings():
                    warnings.simplefilter("ignore")
                    seeds = mech.get_seeds(tree)
                cov["mechanism_calls"] += 1
                for d, c in seeds.items():
                    if not c.individuals:
                        viol("SproutMechanism.get_seeds returns a deme with an empty candidate list", deme=d.id)
                    for ind in c.individuals:
                        if not any(ind is x for x in d.current_population):
                            viol("SproutMechanism.get_seeds returns a seed that is not in the parent's current population", deme=d.id)
            except Exception as e:
                cov[f"mechanism_raised.{type(e).__name__}"] += 1
                viol(f"SproutMechanism.get_seeds raised {type(e).__name__} on a well-formed tree", error=repr(e)[:120], active_per_level=[sum(1 for d_ in lvl if d_.is_active) for lvl in tree.levels])
    res["violations"] = ctx.violations
    res["nontrivial"] = nontrivial
    res["sample"]["synthetic"] = {"levels": [len(lvl) for lvl in tree.levels], "active": [sum(1 for d in lvl if d.is_active) for lvl in tree.levels], "maximize": maximize}
    return res
