"""C14 - a seeded run is exactly reproducible: twin monitor (in-process repeats with scrambled global RNGs,
fresh interpreters with different PYTHONHASHSEED, minimize(seed=...))."""
import json
import os
import subprocess
import sys
from collections import Counter

from .. import env, gen, harness
from ..props import run_result

SOURCES = {
    "sea": {"numpy"}, "sea_cx": {"numpy"}, "ga": {"numpy"}, "sea_adapt": {"numpy"}, "mwea": {"numpy"},
    "de": {"numpy"}, "de_dither": {"numpy"}, "shade": {"numpy", "scipy.stats"},
    "cma": {"cma"}, "cma_warm": {"cma"}, "cma_stds": {"cma"}, "lhs": {"qmc"}, "sobol": {"qmc"},
    "local": set(), "local_maxiter": set(), "custom": {"numpy"},
}
ROOTS = gen.ROOT_ENGINES
LEAVES = gen.INNER_ENGINES + gen.LEAF_ONLY + ["lhs", "sobol"]


def make_case(seed, idx, tier):
    rng = gen.case_rng("C14", seed, idx)
    if idx % 9 == 8:
        d = gen.gen_minimize_case(rng, {"dim": (2, 3)})
        d["seed"] = rng.choice([0, rng.randint(0, 10**6), rng.randint(0, 10**6)])
        if d.get("maxfun"):
            d["maxfun"] = min(d["maxfun"], 600)
        d["kind"] = "minimize"
        d["c14"] = True
        return d
    prof = {
        "dim": (2, 3),
        "root": ROOTS[idx % len(ROOTS)],
        "leaf": LEAVES[idx % len(LEAVES)],
        "inner": gen.INNER_ENGINES[(idx // 2) % len(gen.INNER_ENGINES)],
        "levels": [2, 2, 3, 3, 2],
        "seeded_p": 1.0,
        "gscs": ["melimit", "evals", "fevals"],
        "hibernation_p": 0.4,
        "lscs": ["dontstop", "melimit", "user", "children", "steady"],
        "entry": None,
    }
    top_seed = idx % 16 == 7  # (a residue that no other sub-profile of this generator uses)
    if top_seed:
        # the top of numpy's seed range is legal too: one CMA-ES deme sprouted in metaepoch 1 (its seed is random_seed + 1)
        prof.update({"n_levels": 2, "leaf": ["cma", "cma_warm", "cma_stds"][(idx // 16) % 3], "sprout": "simple", "level_limit": 1, "lscs": ["dontstop"], "gsc": "melimit",
                     "root": ["sea", "de", "shade", "sobol"][(idx // 16) % 4], "fams": ["rastrigin", "sphere"]})
    if idx % 8 == 5:
        # adaptive mutation whose width is handed over as an array: the step is added for every metaepoch since the last sprout
        prof.update({"n_levels": 2, "root": "sea_adapt", "leaf": ["sea", "de", "cma"][(idx // 8) % 3], "sprout": "simple", "level_limit": 1, "lscs": ["dontstop"], "gsc": "melimit",
                     "stacks": False, "fams": ["rastrigin", "sphere"]})
    if idx % 8 == 1:
        # warm-started CMA-ES children (sigma0 / CMA_stds estimated from the parent's population): the estimate must come from *this*
        # tree's parent, whatever ran earlier in the process (see the history twin in run_case)
        prof.update({"n_levels": 2 + (idx // 8) % 2, "leaf": ["cma_warm", "cma_stds", "cma_warm"][(idx // 8) % 3], "sprout": ["simple", "nbc"][(idx // 8) % 2], "level_limit": 2,
                     "lscs": ["dontstop", "melimit"], "gsc": "melimit", "root": ["sea", "de", "shade", "sea_cx"][(idx // 8) % 4], "inner": ["sea", "de"][(idx // 16) % 2],
                     "fams": ["rastrigin", "funnel", "sphere"], "stacks": False})
    big_de = idx % 16 == 15
    if big_de:
        # DE / SHADE populations well above 32 individuals (sizes at which vectorised donor selection or numpy itself take other code paths)
        prof.update({"n_levels": 2, "root": ["de", "shade", "de_dither"][(idx // 16) % 3], "leaf": ["shade", "de"][(idx // 16) % 2], "sprout": "simple", "level_limit": 2,
                     "lscs": ["dontstop"], "gsc": "melimit", "fams": ["rastrigin", "sphere"], "stacks": False})
    multi = idx % 8 == 3
    if multi:
        # several demes sprouted onto one level in the same metaepoch, on a level whose engine consumes the seed it is handed
        prof.update({"n_levels": 2 + (idx // 8) % 2, "leaf": ["cma", "lhs", "sobol", "cma_warm"][(idx // 8) % 4], "sprout": "custom", "level_limit": 4,
                     "lscs": ["dontstop", "melimit"], "gsc": "melimit", "root": ["sea", "de", "shade", "lhs"][(idx // 8) % 4], "fams": ["rastrigin", "funnel"]})
    d = gen.gen_tree_case(rng, prof)
    if multi:
        d["sprout"] = {"k": "custom", "gen": {"k": "nbc", "df": 1.0, "trunc": 1.0}, "dfilters": [{"k": "demelimit", "n": 3}], "tfilters": [{"k": "levellimit", "n": 4}], "ll": 4}
        d["gsc"] = {"k": "melimit", "n": 5}
        d["force_subprocess"] = True
    if idx % 8 == 5:
        d["gsc"] = {"k": "melimit", "n": 6}
        d["sprout"]["far"] = 1e-9
    for lv in d["levels"]:
        if lv["engine"] == "sea_adapt" and (rng.random() < 0.6 or idx % 8 == 5):
            lv["mutation_std_array"] = len(d["box"]["bounds"])  # per-dimension width given as an ndarray
    d["options"]["random_seed"] = rng.randint(0, 10**6) if idx % 6 else 0  # 0 is a legal seed
    if top_seed:
        d["options"]["random_seed"] = 2**32 - 2
        d["sprout"]["far"] = 1e-9
        d["gsc"] = {"k": "melimit", "n": 4}
    if big_de and d.get("kind", "tree") != "minimize":
        d["levels"][0]["pop"] = 40
        d["levels"][1]["pop"] = 36
        d["gsc"] = {"k": "melimit", "n": 3}
        d["force_subprocess"] = True
    d["c14"] = True
    if idx % 4 == 2:
        # the run carried out in pieces through the public stepping methods (run_step() a few times, then run()) - or wholly by hand
        d["entry"] = "tree"
        d["steps_before_run"] = 1 + (idx // 4) % 3
        if idx % 16 == 10:
            d["entry"] = "hand"
            d["hand_bump"] = True  # (without it every CMA-ES deme starts "at metaepoch 0": with random_seed=0 cma is then handed seed 0 = "seed from the clock", DESIGN 10.5)
            d["hand_steps"] = 3 + (idx // 16) % 3
            d.pop("steps_before_run")
    if idx % 4 == 1:
        d["history_twin"] = True
        if idx % 8 == 1:
            d["force_subprocess"] = True
            d["gsc"] = {"k": "melimit", "n": rng.randint(4, 6)}
    d["subprocess_hashseeds"] = ["1", "random"] if tier == "quick" else ["0", "1", "12345", "random"]
    if tier == "quick" and idx % 2 and not d.get("force_subprocess"):
        d["subprocess_hashseeds"] = []
    return d


def _sibling_short_run(desc):
    """A short run of a sibling configuration (same structure and dimension, other seed, other objective, two metaepochs): what a
    benchmark loop or a test session has typically executed before the run under observation."""
    import copy

    p = copy.deepcopy(desc)
    p["options"]["random_seed"] = (int(desc["options"].get("random_seed") or 0) + 12345) % (2**32 - 1000)
    p["np_seed"] = (int(desc.get("np_seed", 0)) * 31 + 7) % (2**31 - 1)
    obj = p["obj"]
    obj["u"] = [round(1.0 - u, 3) for u in obj.get("u", [])]
    p["gsc"] = {"k": "melimit", "n": 2}
    p.pop("history_twin", None)
    p.pop("rerun", None)
    return p


def snapshot_of(desc, np_seed):
    from ..observe import public_snapshot

    d = dict(desc)
    d["np_seed"] = np_seed
    ctx = harness.run_case(d)
    if ctx.aborted and ctx.aborted[0] == "exception":
        return ctx, {"aborted": list(ctx.aborted[:3])}
    snap = public_snapshot(ctx.tree, with_text=False) if ctx.tree is not None else {}
    snap["call_log"] = _loghash(ctx)
    snap["n_calls"] = len(ctx.log)
    if ctx.result is not None:
        snap["result"] = [[float(v).hex() for v in ctx.result.x], float(ctx.result.fun).hex(), int(ctx.result.nfev), int(ctx.result.nit)]
    return ctx, snap


def _loghash(ctx):
    import hashlib

    h = hashlib.sha1()
    for e in ctx.log:
        h.update(e[1])
    return h.hexdigest()


def _first_diff_class(a, b):
    for x, y in zip(a.get("demes", []), b.get("demes", [])):
        if x != y:
            return x.get("class", "?")
    if len(a.get("demes", [])) != len(b.get("demes", [])):
        return "number of demes"
    return "tree-level fields"


def run_case(desc):
    from ..observe import diff_snapshots, snapshot_digest

    c1, s1 = snapshot_of(desc, desc["np_seed"])
    c2, s2 = snapshot_of(desc, (desc["np_seed"] * 7919 + 13) % (2**31 - 1))
    res = run_result(c1, desc)
    cov = res["cov"]
    cov["descriptors"] += 1
    if "aborted" in s1 or "aborted" in s2:
        cov["descriptors_aborted_by_exception"] += 1
        if s1 != s2:
            c1.violation("C14", "seeded repeat differs in-process: one run raised and the other did not (or differently)", {"a": s1, "b": s2})
        res["violations"] = c1.violations
        return res
    cov["in_process_twins"] += 1
    if snapshot_digest(s1) != snapshot_digest(s2):
        c1.violation(
            "C14",
            f"seeded repeat differs in-process (scrambled global RNG state): first difference in {_first_diff_class(s1, s2)}",
            {"differences": diff_snapshots(s1, s2), "engines": gen.engine_mix(desc), "options": desc.get("options")},
        )
    # fresh interpreters
    for hs in desc.get("subprocess_hashseeds", []):
        envv = dict(os.environ)
        envv["PYTHONHASHSEED"] = hs
        envv["PYTHONPATH"] = env.VERIF_DIR + os.pathsep + envv.get("PYTHONPATH", "")
        envv["VERIF_REPO"] = env.REPO
        try:
            p = subprocess.run([env.PYTHON, "-m", "vlib.monitors.c14sub"], input=json.dumps(desc), capture_output=True, text=True, timeout=120, env=envv, cwd=env.VERIF_DIR)
        except subprocess.TimeoutExpired:
            cov["subprocess_timeouts"] += 1
            continue
        if p.returncode != 0:
            cov["subprocess_errors"] += 1
            raise harness.HarnessError("c14 subprocess failed: " + p.stderr[-1500:])
        s3 = json.loads(p.stdout.strip().split("\n")[-1])
        cov["cross_process_twins"] += 1
        cov[f"hashseed.{hs}"] += 1
        if snapshot_digest(s3) != snapshot_digest(s1):
            c1.violation(
                "C14",
                f"seeded repeat differs across processes / PYTHONHASHSEED: first difference in {_first_diff_class(s1, s3)}",
                {"differences": diff_snapshots(s1, s3), "engines": gen.engine_mix(desc), "hashseed": hs},
            )
    # the same seeded run after a short run of a sibling configuration in the same process: module- or class-level state left behind
    # by an earlier tree (caches keyed by deme id, counters) must not reach this one
    if desc.get("history_twin") and desc.get("kind") != "minimize":
        harness.run_case(_sibling_short_run(desc))
        c4, s4 = snapshot_of(desc, (desc["np_seed"] * 104729 + 5) % (2**31 - 1))
        cov["runs_preceded_by_a_short_run_of_a_sibling_configuration"] += 1
        warm = [dm for dm in s4.get("demes", []) if dm.get("class") == "CMADeme" and dm.get("level", 0) > 0]
        if warm and any(lv["engine"] in ("cma_warm", "cma_stds") for lv in desc["levels"]):
            cov["history_twins_with_a_warm_started_cma_deme"] += 1
        if "aborted" not in s4 and snapshot_digest(s4) != snapshot_digest(s1):
            c1.violation(
                "C14",
                f"seeded run depends on what ran before it in the process: first difference in {_first_diff_class(s1, s4)}",
                {"differences": diff_snapshots(s1, s4), "engines": gen.engine_mix(desc), "preceded_by": "two metaepochs of the same configuration with another seed and objective"},
            )
    # the same configuration *objects* run twice in one process (the most literal reading of "two runs of the same
    # configuration"): nothing the first run does to the objects it was handed may change the second
    stateful = any(st.startswith(("cutoff", "prec")) for lv in desc["levels"] for st in lv.get("stack", []))
    if desc.get("kind") != "minimize" and not stateful and desc["gsc"]["k"] != "precision":
        from ..observe import public_snapshot

        ca, cb = harness.run_reuse_pair(desc, lambda: [], second_seed_offset=0, same_np_seed=False)
        if not ca.aborted and not cb.aborted and ca.tree is not None and cb.tree is not None:
            cov["same_config_objects_run_twice"] += 1
            sa, sb = public_snapshot(ca.tree, with_text=False), public_snapshot(cb.tree, with_text=False)
            if snapshot_digest(sa) != snapshot_digest(sb):
                c1.violation(
                    "C14",
                    f"second seeded run from the same configuration objects differs from the first: first difference in {_first_diff_class(sa, sb)}",
                    {"differences": diff_snapshots(sa, sb), "engines": gen.engine_mix(desc)},
                )
    n_demes = len(s1.get("demes", []))
    per = Counter((dm["level"], dm["started_at"]) for dm in s1.get("demes", []) if dm["level"] > 0 and dm["class"] in ("CMADeme", "LHSDeme", "SobolDeme"))
    if any(v >= 2 for v in per.values()):
        cov["two_seed_consuming_demes_sprouted_onto_one_level_in_one_metaepoch"] += 1
    if desc.get("options", {}).get("random_seed") == 2**32 - 2 and any(dm["class"] == "CMADeme" and dm["started_at"] == 1 for dm in s1.get("demes", [])):
        cov["cma_deme_handed_the_largest_seed_numpy_accepts"] += 1
    if desc.get("steps_before_run") or desc.get("entry") == "hand":
        cov["seeded_runs_carried_out_through_the_stepping_methods"] += 1
    if any(lv.get("engine") in ("de", "de_dither", "shade") and lv.get("pop", 0) >= 32 for lv in desc["levels"]):
        cov["descriptors_with_a_de_or_shade_population_of_32_or_more"] += 1
    if n_demes >= 2:
        cov["descriptors_with_2_demes"] += 1
    if len(desc["levels"]) >= 3:
        cov["descriptors_with_3_levels"] += 1
    src = set()
    for lv in desc["levels"]:
        src |= SOURCES.get(lv["engine"], set())
    if n_demes >= 2 and len(src) >= 2:
        res["nontrivial"].append([gen.engine_mix(desc), sorted(src)])
    res["violations"] = c1.violations
    res["sample"]["twin"] = {"digest": snapshot_digest(s1), "n_demes": n_demes, "calls": s1.get("n_calls"), "subprocess_hashseeds": desc.get("subprocess_hashseeds")}
    return res
