"""C16 - problem wrappers: model-based monitor.

A wrapper stack of depth 0-4 over {counting, cutoff(N), precision(opt, eps), stats}, in every order, over a
recording FunctionProblem is driven by a generated call sequence next to a small reference model of each
wrapper.  After every call every observable is compared with the model: exact.
"""
import math
from collections import Counter

import numpy as np

from .. import gen

KINDS = ["count", "cutoff", "prec", "stats"]


class Model:
    """Reference model of one wrapper (independent of pyhms)."""

    def __init__(self, kind, maximize, n=None, opt=None, eps=None):
        self.kind, self.maximize = kind, maximize
        self.N, self.opt, self.eps = n, opt, eps
        self.count = 0
        self.eta = math.inf
        self.hit = False

    def evaluate(self, inner_call):
        if self.kind == "cutoff":
            if self.count >= self.N:
                return -math.inf if self.maximize else math.inf
            v = inner_call()
            self.count += 1
            return v
        v = inner_call()
        self.count += 1
        if self.kind == "prec" and not self.hit and abs(v - self.opt) <= self.eps:
            self.eta = self.count
            self.hit = True
        return v


class C16Stacks:
    """Tap-side monitor: the counter laws on the wrapper stacks of a real run, at every GSC consultation and at the end.

    received(top) = sum of the deme counters on the levels using the stack; for every wrapper j: forwarded(j) = n_j;
    received(j-1) = forwarded(j); n = received for counting / stats / precision wrappers, n = min(N, received) for a
    cutoff; objective invocations with the stack's tag = forwarded(innermost wrapper); ETA = 1-based index of the first
    recorded value within the precision (sticky), else inf.
    """

    prop = "C16"
    ctx = None

    def _check(self, tree, where):
        from pyhms.core.problem import EvalCutoffProblem, PrecisionCutoffProblem

        ctx = self.ctx
        if ctx.scope:
            return  # inside a deme's construction the deme is not yet listed in tree.levels
        seen = set()
        for li, objs in enumerate(ctx.stacks):
            if id(objs[0]) in seen:
                continue
            seen.add(id(objs[0]))
            shared = bool(ctx.desc.get("shared"))
            tag = -1 if shared else li
            levels = range(len(ctx.stacks)) if shared else [li]
            received = sum(d._problem._n_evals for lv in levels if lv < len(tree.levels) for d in tree.levels[lv])
            if ctx.prev is not None and ctx.prev.tree is not None:
                # the wrappers are shared with the first tree built from this configuration: its demes' requests count too
                pt = ctx.prev.tree
                received += sum(d._problem._n_evals for lv in levels if lv < len(pt.levels) for d in pt.levels[lv])
                ctx.cov["C16.real_stack_checks_on_a_reused_configuration"] += 1
            ys = [e[2] for e in ctx.log if e[0] == tag]
            ctx.cov["C16.real_stack_checks"] += 1
            for w in reversed(objs[1:]):
                kind = type(w).__name__
                n = w.n_evaluations
                want = min(w._eval_cutoff, received) if isinstance(w, EvalCutoffProblem) else received
                if n != want:
                    ctx.violation("C16", f"real run: counter of a {kind} differs from the calls it received / forwarded", {"where": where, "level": li, "got": int(n), "want": int(want), "stack": ctx.desc["levels"][li]["stack"]})
                if isinstance(w, PrecisionCutoffProblem):
                    hit = next((i + 1 for i, y in enumerate(ys[:n]) if abs(y - w._global_optima) <= w.precision), None)
                    if (hit is None) != (not w.hit_precision) or (hit is not None and w.ETA != hit):
                        ctx.violation("C16", "real run: precision wrapper's ETA / hit flag differ from the first recorded value within the precision", {"where": where, "got": [float(w.ETA), bool(w.hit_precision)], "want": hit})
                    if hit is not None:
                        ctx.cov["C16.real_precision_hits"] += 1
                received = n
            if len(ys) != received:
                ctx.violation("C16", "real run: objective invocations differ from the calls forwarded by the innermost wrapper", {"where": where, "invoked": len(ys), "forwarded": int(received), "level": li})
            if any(isinstance(w, EvalCutoffProblem) and w._n_evals >= w._eval_cutoff for w in objs[1:]):
                ctx.cov["C16.real_stack_checks_with_saturated_cutoff"] += 1

    def on_gsc(self, tree, verdict, kind, deme):
        if self.ctx.n_gsc % 5 == 0:
            self._check(tree, "gsc")

    def on_run_end(self, tree):
        self._check(tree, "end")

    def on_run_aborted(self, tree):
        if tree is not None:
            self._check(tree, "end")


def make_case(seed, idx, tier):
    rng = gen.case_rng("C16", seed, idx)
    if idx % 50 == 49:
        prof = {"dim": (2, 3), "levels": [1, 2, 2, 3], "gscs": ["evals", "fevals", "precision", "melimit"], "max_pop": 12}
        d = gen.gen_tree_case(rng, prof)
        if not any(lv["stack"] for lv in d["levels"]):
            st = [rng.choice(["count", "stats", f"cutoff:{rng.choice([60, 150, 400])}", f"prec:{rng.choice([1e-1, 1e-3])}"]) for _ in range(rng.randint(1, 3))]
            for lv in d["levels"]:
                lv["stack"] = st if d["shared"] else list(st)
        d["kind"] = "c16run"
        if (idx // 50) % 3 == 2 and d["gsc"]["k"] != "precision":
            d["reuse"] = True
            d["entry"] = "tree"
        return d
    depth = [0, 1, 2, 2, 3, 3, 4, 4][idx % 8]
    stack = []
    # stratify the (inner, outer) adjacent pair on the first two positions
    if depth >= 2:
        pair = idx // 8 % 16
        stack = [KINDS[pair % 4], KINDS[pair // 4]]
    while len(stack) < depth:
        stack.append(rng.choice(KINDS))
    maximize = bool((idx // 3) % 2)
    opt = rng.choice([0.0, 1.0, -2.5, 100.0, -3000.0])
    wr = []
    ncalls = rng.randint(5, 200 if tier == "thorough" else 80)
    long_run = idx % 200 == 77
    if long_run:
        # a long-lived wrapper: more than 10 000 calls through one stats / counting wrapper
        ncalls = rng.randint(10100, 11000)
        stack = [rng.choice(["stats", "count"]), "stats"][: max(1, depth)] if depth else ["stats"]
    very_long = idx % 400 == 277
    if very_long:
        # ... and more than 100 000 calls (the values are cycled, see "repeat"): what a long optimisation run sends through one problem object
        ncalls = rng.randint(10100, 11000)
        stack = [["stats"], ["count", "stats"], ["stats", "count"], ["stats", "stats"]][(idx // 400) % 4]
    for k in stack:
        if k == "cutoff":
            wr.append({"k": k, "n": rng.choice([0, 1, 2, 3, 5, 10, 30, ncalls - 1, ncalls, ncalls + 5])})
        elif k == "prec":
            wr.append({"k": k, "opt": opt, "eps": rng.choice([1e-1, 1e-3, 0.0])})
        else:
            wr.append({"k": k})
    # call values: value returned by the objective = first coordinate
    mode = rng.choice(["never", "once", "repeated", "at_cutoff", "random"])
    cut = min([w["n"] for w in wr if w["k"] == "cutoff"] or [ncalls // 2])
    vals = []
    for i in range(ncalls):
        far = opt + rng.choice([-1, 1]) * rng.uniform(0.5, 10.0)
        eps0 = max([w["eps"] for w in wr if w["k"] == "prec"] or [1e-3])
        near = opt + rng.choice([-1, 1, 0]) * rng.choice([0.0, 1e-4, 0.05, 0.1])
        if rng.random() < 0.35:
            # just outside the precision: must NOT count as a hit (absolute tolerance, whatever the size of the optimum)
            near = opt + rng.choice([-1, 1]) * (eps0 * (1 + 1e-9) + rng.choice([0.0, 4e-6, 9e-6, 5e-10, 5e-10]) * abs(opt))
            far = near if rng.random() < 0.5 else far
        if mode == "never":
            v = far
        elif mode == "once":
            v = near if i == ncalls // 3 else far
        elif mode == "repeated":
            v = near if rng.random() < 0.4 else far
        elif mode == "at_cutoff":
            v = near if i in (cut - 1, cut, cut + 1) else far
        else:
            v = rng.choice([near, far, far])
        vals.append(float(v).hex())
    d = {"kind": "c16", "stack": wr, "maximize": maximize, "values_hex": vals, "mode": mode, "idx": idx}
    if very_long:
        d["repeat"] = 11
    if len(wr) >= 2 and idx % 5 == 2 and not very_long:
        # the outermost wrapper is put around a stack that has already been used for a while (wrapping late)
        d["late_wrap_after"] = rng.randint(1, max(1, min(12, ncalls // 2)))
    return d


def run_case(desc):
    if desc.get("kind") == "c16run":
        from .. import harness
        from ..props import run_result

        from ..props import run_desc

        return run_desc(desc, lambda: [C16Stacks()])
    from pyhms.core.problem import (
        EvalCountingProblem,
        EvalCutoffProblem,
        FunctionProblem,
        PrecisionCutoffProblem,
        StatsGatheringProblem,
        get_function_problem,
    )

    cov = Counter()
    violations = []
    maximize = desc["maximize"]
    calls = []

    def viol(key, **detail):
        if sum(1 for v in violations if v["key"] == key) < 3:
            violations.append({"property": "C16", "key": key, "detail": detail})

    def f(x, *a, **k):
        calls.append(float(x[0]))
        return float(x[0])

    bounds = np.array([[-20.0, 20.0], [-1.0, 3.0]])
    fp = FunctionProblem(f, bounds, maximize)
    custom_inner = desc.get("idx", 0) % 5 == 4
    if custom_inner:
        from pyhms.core.problem import Problem

        class ClosestToTarget(Problem):
            """A user-defined innermost problem with its own notion of 'worse' (distance of the value to a target)."""

            def evaluate(self, genome, *a, **k):
                return f(genome)

            def worse_than(self, first_fitness, second_fitness):
                return abs(first_fitness - 0.25) > abs(second_fitness - 0.25)

            def equivalent(self, first_fitness, second_fitness):
                # the other half of its notion of comparison: values equally far from the target are equivalent
                return abs(first_fitness - 0.25) == abs(second_fitness - 0.25)

            @property
            def bounds(self):
                return bounds

            @property
            def maximize(self):
                return maximize

        fp = ClosestToTarget()
        cov["custom_innermost_problem"] += 1
    p = fp
    objs, models = [], []
    for w in desc["stack"]:
        k = w["k"]
        if k == "count":
            p = EvalCountingProblem(p)
            m = Model(k, maximize)
        elif k == "stats":
            p = StatsGatheringProblem(p)
            m = Model(k, maximize)
        elif k == "cutoff":
            p = EvalCutoffProblem(p, w["n"])
            m = Model(k, maximize, n=w["n"])
        else:
            p = PrecisionCutoffProblem(p, w["opt"], w["eps"])
            m = Model(k, maximize, opt=w["opt"], eps=w["eps"])
        objs.append(p)
        models.append(m)
    top = p
    late = int(desc.get("late_wrap_after", 0) or 0)
    if late and len(objs) >= 2:
        # rebuild: everything but the outermost wrapper first; the outermost one is constructed after `late` calls
        cov["late_wrapped_stacks"] += 1
    shape = tuple(w["k"] for w in desc["stack"])
    for a, b in zip(shape, shape[1:]):
        cov[f"pair.inner={a}.outer={b}"] += 1
    cov[f"depth.{len(shape)}"] += 1

    # static transparency
    if top.bounds is not bounds and not np.array_equal(top.bounds, bounds):
        viol("bounds of the stack are not those of the innermost problem", stack=shape)
    if bool(top.maximize) != maximize:
        viol("direction of the stack is not that of the innermost problem", stack=shape, maximize=maximize, got=bool(top.maximize))
    if not custom_inner and get_function_problem(top) is not fp:
        viol("get_function_problem does not return the innermost problem", stack=shape)
    pairs = [(-0.75, 1.25), (1.0, 2.0), (2.0, 1.0), (1.0, 1.0), (math.inf, 1.0), (1.0, -math.inf), (-math.inf, math.inf), (0.0, -0.0), (math.nan, 1.0), (1.0, math.nan), (-3.0, 0.3), (0.3, -3.0)]
    for a, b in pairs:
        got = top.worse_than(a, b)
        cov["worse_than_pairs"] += 1
        inner = fp.worse_than(a, b)
        if not custom_inner and not (a != a or b != b):
            want = (a < b) if maximize else (a > b)
            if bool(inner) != want:
                viol("FunctionProblem.worse_than does not follow the declared direction", a=a, b=b, maximize=maximize)
        if bool(got) != bool(inner):
            nan = " (NaN operand)" if (a != a or b != b) else ""
            cust = " (user-defined innermost problem)" if custom_inner else ""
            viol(f"fitness comparison of the stack differs from the innermost problem's{nan}{cust}", stack=shape, a=a, b=b, got=bool(got), innermost=bool(inner), maximize=maximize)
        if hasattr(fp, "equivalent") and not (a != a or b != b):
            cov["equivalent_pairs"] += 1
            ge, ie = bool(top.equivalent(a, b)), bool(fp.equivalent(a, b))
            if ge != ie:
                cust = " (user-defined innermost problem)" if custom_inner else ""
                viol(f"equivalence of fitness values answered by the stack differs from the innermost problem's{cust}", stack=shape, a=a, b=b, got=ge, innermost=ie)

    def build_outer(w, inner):
        k = w["k"]
        if k == "count":
            return EvalCountingProblem(inner), Model(k, maximize)
        if k == "stats":
            return StatsGatheringProblem(inner), Model(k, maximize)
        if k == "cutoff":
            return EvalCutoffProblem(inner, w["n"]), Model(k, maximize, n=w["n"])
        return PrecisionCutoffProblem(inner, w["opt"], w["eps"]), Model(k, maximize, opt=w["opt"], eps=w["eps"])

    if late and len(objs) >= 2:
        full_objs, full_models = objs, models
        objs, models = objs[:-1], models[:-1]
        top = objs[-1]
    past_cutoff = 0
    hits = 0
    sequence = desc["values_hex"] * int(desc.get("repeat", 1))
    if len(sequence) > 100000:
        cov["sequences_of_more_than_100000_calls"] += 1
    for i, hx in enumerate(sequence):
        if late and i == late and len(desc["stack"]) >= 2 and len(objs) == len(desc["stack"]) - 1:
            o_, m_ = build_outer(desc["stack"][-1], top)  # constructed now, around an inner stack that has already counted `late` calls
            objs, models = objs + [o_], models + [m_]
            top = o_
            if o_.n_evaluations != 0:
                viol(f"a freshly constructed {m_.kind} wrapper does not start at zero", stack=desc["stack"], got=int(o_.n_evaluations), inner_calls_before=late)
                m_.count = int(o_.n_evaluations)  # keep following the implementation so that one defect is reported once
        v = float.fromhex(hx)
        x = np.array([v, 0.5])
        n_before = len(calls)

        def base_call():
            return v  # what the objective returns for this point

        # model: evaluate through the chain, innermost first
        def chain(level):
            if level < 0:
                model_calls.append(1)
                return base_call()
            return models[level].evaluate(lambda: chain(level - 1))

        model_calls = []
        want = chain(len(models) - 1)
        got = top.evaluate(x)
        invoked = len(calls) - n_before
        cov["calls"] += 1
        if invoked != len(model_calls):
            viol(
                "objective invoked although a cutoff below had been reached" if invoked > len(model_calls) else "objective not invoked although no cutoff had been reached",
                stack=desc["stack"],
                call=i + 1,
                invoked=invoked,
            )
        if not (got == want):
            viol("evaluate returned a value different from the wrapped objective's (or the direction's worst past the cutoff)", stack=desc["stack"], call=i + 1, got=float(got), want=float(want), maximize=maximize)
        if not model_calls:
            past_cutoff += 1
        for li, (o, m) in enumerate(zip(objs, models)):
            if o.n_evaluations != m.count:
                viol(f"counter of a {m.kind} wrapper differs from the calls it forwarded", stack=desc["stack"], level=li, call=i + 1, got=int(o.n_evaluations), want=m.count)
            if m.kind == "prec":
                if bool(o.hit_precision) != m.hit or not (o.ETA == m.eta):
                    viol("precision wrapper: ETA / hit flag differ from the 1-based index of the first hit", stack=desc["stack"], call=i + 1, got=[float(o.ETA), bool(o.hit_precision)], want=[m.eta, m.hit])
        hits = max(hits, sum(1 for m in models if m.kind == "prec" and m.hit))
    if past_cutoff:
        cov["sequences_with_calls_past_cutoff"] += 1
    nprec_hits = 0
    for m in models:
        if m.kind == "prec" and m.hit:
            # repeated hits: count how many forwarded values were within precision
            nprec_hits += 1
    rep = desc["mode"] in ("repeated", "random", "at_cutoff") and nprec_hits > 0
    if rep:
        cov["sequences_with_repeated_precision_hits"] += 1
    nontrivial = []
    if past_cutoff or rep:
        nontrivial.append([list(shape), maximize])
    sample = {"stack": desc["stack"], "maximize": maximize, "n_calls": len(desc["values_hex"]), "mode": desc["mode"], "objective_invocations": len(calls), "calls_past_cutoff": past_cutoff}
    return {"violations": violations, "cov": cov, "nontrivial": nontrivial, "sample": sample}
