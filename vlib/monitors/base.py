"""Monitor base class and shared observation helpers."""
import numpy as np

from ..harness import canon

ENGINE_CLASS = {
    "sea": "EADeme",
    "sea_cx": "EADeme",
    "ga": "EADeme",
    "sea_adapt": "EADeme",
    "mwea": "EADeme",
    "de": "DEDeme",
    "de_dither": "DEDeme",
    "shade": "SHADEDeme",
    "cma": "CMADeme",
    "cma_warm": "CMADeme",
    "cma_stds": "CMADeme",
    "local": "LocalDeme",
    "local_maxiter": "LocalDeme",
    "lhs": "LHSDeme",
    "sobol": "SobolDeme",
    "custom": "RandomSearchDeme",
    "custom_ea": "TaggedEADeme",
    "custom_ea2": "TaggedEADeme2",
}


class Monitor:
    prop = "C00"

    def __init__(self):
        self.ctx = None

    # -- helpers
    def v(self, key: str, **detail):
        self.ctx.violation(self.prop, key, detail)

    def cov(self, name: str, n: int = 1):
        self.ctx.cov[f"{self.prop}.{name}"] += n

    def nt(self, item):
        self.ctx.nontrivial.add((self.prop, item))

    def engine_of(self, deme) -> str:
        lv = self.ctx.desc["levels"]
        return lv[deme.level]["engine"] if 0 <= deme.level < len(lv) else "?"

    def all_demes(self, tree):
        return [d for lvl in tree.levels for d in lvl]

    def better(self, a: float, b: float) -> bool:
        """a strictly better than b in the problem's direction (finite or +-inf values)."""
        return a > b if self.ctx.maximize else a < b

    def worst_sentinel(self) -> float:
        return -np.inf if self.ctx.maximize else np.inf

    def cutoff_saturated(self, level: int) -> bool:
        from pyhms.core.problem import EvalCutoffProblem

        stacks = self.ctx.stacks
        if self.ctx.desc.get("kind") == "minimize":
            mf = self.ctx.desc.get("maxfun")
            return mf is not None and len(self.ctx.log) >= mf
        if not stacks:
            return False
        for o in stacks[min(level, len(stacks) - 1)]:
            if isinstance(o, EvalCutoffProblem) and o._n_evals >= o._eval_cutoff:
                return True
        return False

    def has_cutoff(self, level: int) -> bool:
        from pyhms.core.problem import EvalCutoffProblem

        stacks = self.ctx.stacks
        if self.ctx.desc.get("kind") == "minimize":
            return self.ctx.desc.get("maxfun") is not None
        return bool(stacks) and any(isinstance(o, EvalCutoffProblem) for o in stacks[min(level, len(stacks) - 1)])


def ind_key(ind):
    return (canon(ind.genome).tobytes(), float(ind.fitness) if ind.fitness is not None else None)


def pop_keys(pop):
    return [ind_key(i) for i in pop]


def hexf(x) -> list:
    return [float(v).hex() for v in np.asarray(x, dtype=np.float64).reshape(-1)]


def true_centroid(deme):
    pop = deme.current_population
    if not pop:
        return None
    return np.mean([ind.genome for ind in pop], axis=0)


def peek_centroid(deme):
    """Read deme.centroid without leaving a trace (the memoised value is restored)."""
    d = deme.__dict__
    had = "_centroid" in d
    old = d.get("_centroid")
    c = deme.centroid
    if had:
        d["_centroid"] = old
    return c
