"""Fresh-interpreter half of C19: load a snapshot in a new process (the crash-recovery use case), report the public
snapshot + raw digest + GSC verdict of the loaded tree, then run it to the end under the invariant monitors."""
import json
import sys


def main():
    req = json.loads(sys.stdin.read())
    from .. import harness  # noqa: F401  (imports pyhms from $VERIF_REPO, defines the tap classes the pickle refers to)
    from ..observe import public_snapshot, raw_digest
    from .c01_c04 import C03Counts, C04Best
    from .c05_c09 import C07Structure, C08LevelLimit
    from .c19 import _gsc_verdict, continue_loaded
    from pyhms.tree import DemeTree

    out = {"violations": [], "aborted": None}
    try:
        loaded = DemeTree.pickle_load(req["path"])
    except Exception as e:
        out["load_error"] = repr(e)[:400]
        sys.stdout.write("\n" + json.dumps(out) + "\n")
        return
    snap = public_snapshot(loaded)
    snap["gsc_verdict"] = _gsc_verdict(loaded)
    snap["raw"] = raw_digest(loaded)
    out["snapshot"] = snap
    n_before = len(loaded.all_demes)
    c2 = continue_loaded(req["desc"], loaded, [C03Counts(), C04Best(), C07Structure(), C08LevelLimit()])
    out["violations"] = c2.violations
    out["aborted"] = list(c2.aborted[:3]) if c2.aborted else None
    out["sprouted_again"] = len(loaded.all_demes) > n_before
    sys.stdout.write("\n" + json.dumps(out, default=str) + "\n")


if __name__ == "__main__":
    main()
