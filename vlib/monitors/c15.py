"""C15 - nearest-better clustering: reference-model monitor with metamorphic re-runs."""
import math
from collections import Counter
from fractions import Fraction

import numpy as np

from .. import gen

CLASSES = ["uniform", "clustered", "collinear", "tied", "converged", "tied_best", "converged_offset", "inf_ties", "int_best"]
BAND = 1e-9


def admissible_kept(fits, maximize, K, kept):
    """Is `kept` (indices, in the order the implementation holds them) a legitimate "best K individuals, best first"?  Among equal fitness
    values the definition does not say which individuals are kept (or which of several tied ones is "the best one"): any choice is fine."""
    n = len(fits)
    key = (lambda i: -fits[i]) if maximize else (lambda i: fits[i])
    if len(kept) != K or len(set(kept)) != len(kept) or any(not (0 <= i < n) for i in kept):
        return False
    if any(key(kept[a]) > key(kept[a + 1]) for a in range(len(kept) - 1)):
        return False
    if kept:
        worst = max(key(i) for i in kept)
        ks = set(kept)
        if any(key(j) < worst for j in range(n) if j not in ks):
            return False
    return True


def ref_nbc(genomes, fits, maximize, factor, trunc, kept=None):
    """Independent O(n^2) reference.  Returns (K, order, dist dict idx->d, mean, must, may) where `must` are the
    indices that have to be returned, `may` the ones in the tolerance band (either answer accepted).  `kept`: the kept part as the
    implementation chose it among equal fitness values (validated by the caller with admissible_kept); default: ties in input order."""
    n = len(fits)
    order = sorted(range(n), key=lambda i: (-fits[i] if maximize else fits[i]))  # stable, best first
    K = int(n * trunc)
    kept = list(kept) if kept is not None else order[:K]
    if K == 0:
        return 0, kept, {}, None, set(), set()
    best = kept[0]
    dist = {}
    for pos, i in enumerate(kept[1:], start=1):
        better = [j for j in kept if (fits[j] > fits[i] if maximize else fits[j] < fits[i])]
        if not better:
            better = [best]
        dist[i] = min(math.dist(genomes[i], genomes[j]) for j in better)
    if not dist:
        return K, kept, dist, None, {best}, set()
    mean = sum(dist.values()) / len(dist)
    thr = factor * mean
    must = {best} | {i for i, d in dist.items() if d > thr * (1 + BAND)}
    may = {i for i, d in dist.items() if thr * (1 - BAND) <= d <= thr * (1 + BAND)}
    return K, kept, dist, mean, must, may


def gen_population(rng, cls, n, d):
    pts = []
    if cls == "uniform" or cls in ("tied", "tied_best", "inf_ties", "int_best"):
        pts = [[rng.uniform(-5, 5) for _ in range(d)] for _ in range(n)]
    elif cls == "clustered":
        k = rng.randint(2, 5)
        cs = [[rng.uniform(-5, 5) for _ in range(d)] for _ in range(k)]
        for i in range(n):
            c = cs[i % k]
            pts.append([c[j] + rng.gauss(0, 0.05) for j in range(d)])
    elif cls == "collinear":
        a = [rng.uniform(-1, 1) for _ in range(d)]
        step = rng.choice([0.5, 1.0, 0.1])
        dirv = [0.0] * d
        dirv[rng.randrange(d)] = 1.0
        idxs = list(range(n))
        rng.shuffle(idxs)
        pts = [[a[j] + step * t * dirv[j] for j in range(d)] for t in idxs]
    elif cls in ("converged", "converged_offset"):
        c = [rng.uniform(-5, 5) for _ in range(d)]
        if cls == "converged_offset":
            c = [x * rng.choice([1.0, 300.0]) for x in c]  # possibly far from the origin
        scale = rng.choice([1e-9, 1e-10, 1e-12]) if cls == "converged" else rng.choice([1e-4, 1e-5, 1e-6])
        seen = set()
        while len(pts) < n:
            p = tuple(c[j] + rng.gauss(0, scale) for j in range(d))
            if p not in seen:
                seen.add(p)
                pts.append(list(p))
    # fitness: multimodal function of position + optional ties
    fits = []
    for p in pts:
        v = sum((x - 0.3) ** 2 for x in p) + 2.0 * sum(math.cos(3.0 * x) for x in p)
        fits.append(v)
    if cls == "converged":
        c0 = pts[0]
        fits = [sum(((x - y) * 1e9) ** 2 for x, y in zip(p, c0)) + rng.random() * 1e-3 for p in pts]
    if cls == "converged_offset":
        # a basin whose optimum value is not 0: pairwise distinct fitness values that differ only far beyond the 9th digit
        c0 = pts[0]
        off = rng.choice([1.0, 7.5, 50.0, -3.25])
        fits = [off + sum((x - y) ** 2 for x, y in zip(p, c0)) for p in pts]
    if cls == "inf_ties" and n >= 4:
        # several individuals carry the (worst-direction) infinite value, e.g. budget sentinels or a penalty zone
        for i in rng.sample(range(n), rng.randint(2, max(2, n // 3))):
            fits[i] = math.inf
    if cls == "int_best":
        # the best individual's genome has integer coordinates (and will be stored as an int64 array)
        b = min(range(n), key=lambda i: fits[i])
        pts[b] = [float(round(x)) for x in pts[b]]
        if any(pts[b] == q for k_, q in enumerate(pts) if k_ != b):
            pts[b][0] += 17.0
    if cls == "tied":
        mode = rng.choice(["pairs", "all", "levels"])
        if mode == "pairs":
            for i in range(0, n - 1, 2):
                fits[i + 1] = fits[i]
        elif mode == "all":
            fits = [1.0] * n
        else:
            fits = [float(round(v)) for v in fits]
    if cls == "tied_best":
        b = min(fits)
        for i in rng.sample(range(n), min(n, rng.randint(2, 3))):
            fits[i] = b - 1.0
    return pts, fits


NEAR_INTEGER_PRODUCTS = [(n_, k_) for n_ in range(5, 61) for k_ in range(2, n_) if n_ * (k_ / n_) < k_]


def make_case(seed, idx, tier):
    rng = gen.case_rng("C15", seed, idx)
    if idx % 100 == 99:
        # a real run whose NBC generator is observed through the tap: clustering of *real* populations (late CMA-ES /
        # DE generations) and the nbc_mean_distance feature vs. the reference
        prof = {
            "dim": (2, 4), "levels": [2, 3, 3], "roots": gen.POP_ENGINES + ["lhs", "sobol"], "inners": gen.POP_ENGINES + ["cma"],
            "sprout": rng.choice(["nbc", "custom"]), "gscs": ["melimit"], "lscs": ["dontstop", "melimit"], "stacks": False,
            "fams": ["rastrigin", "funnel", "sphere", "plateau"],
        }
        d = gen.gen_tree_case(rng, prof)
        if d["sprout"]["k"] == "custom" and d["sprout"]["gen"]["k"] == "best":
            d["sprout"]["gen"] = {"k": "nbc", "df": 2.0, "trunc": rng.choice([1.0, 0.7])}
        d["gsc"] = {"k": "melimit", "n": 8}
        d["kind"] = "c15run"
        return d
    cls = CLASSES[idx % len(CLASSES)]
    n = rng.randint(2, 60 if idx % 3 else 12)
    d = rng.randint(1, 8)
    if cls == "collinear":
        n = min(n, 30)
    pts, fits = gen_population(rng, cls, n, d)
    trunc = rng.choice([1.0, 1.0, 0.7, 0.5, 0.3, 0.1, 0.9])
    if idx % 25 == 7:
        trunc = min(1.0, 1.0 / n + 1e-9) if n > 1 else 1.0  # K == 1
    if idx % 25 == 13:
        # n * truncation_factor a hair *below* an integer (a factor computed as k / n, or a decimal such as 0.58 with n = 50): the kept
        # count is the integer part of that product, nothing is to be rounded up
        n, k_ = rng.choice(NEAR_INTEGER_PRODUCTS)
        trunc = k_ / n if (n, k_) != (50, 29) or rng.random() < 0.5 else 0.58
        if cls == "collinear":
            cls = "uniform" if "uniform" in CLASSES else CLASSES[0]
        pts, fits = gen_population(rng, cls, n, d)
    maximize = bool((idx // len(CLASSES)) % 2)
    if maximize:
        fits = [-f for f in fits]
    return {
        "kind": "c15",
        "cls": cls,
        "genomes_hex": [[float(x).hex() for x in p] for p in pts],
        "fits_hex": [float(f).hex() for f in fits],
        "maximize": maximize,
        # (idx % 40 == 17: a factor so large that factor x mean is not a finite number - the best one is still a seed, nobody else is)
        "factor": (rng.choice([float("inf"), 1e308]) if idx % 40 == 17 else rng.choice([0.5, 1.0, 2.0, 3.0, 4.0, 1.5, 0.0])),
        "trunc": trunc,
        "n_problem_objects": rng.choice([1, 1, 2, 3]),
        "idx": idx,
    }


def _cluster(genomes, fits, maximize, factor, trunc, n_objs=1, int_best=False, peek=False, via_clone=False):
    from pyhms.core.individual import Individual
    from pyhms.core.problem import FunctionProblem
    from pyhms.utils.clusterization import NearestBetterClustering

    d = len(genomes[0])
    # `n_objs` problem objects that are equal in value but distinct objects (individuals gathered from several demes, as
    # in tree.all_individuals, each hold their own deme's wrapper)
    probs = [FunctionProblem(lambda x: 0.0, np.array([[-1e9, 1e9]] * d), maximize) for _ in range(max(1, n_objs))]
    inds = [Individual(np.array(g, dtype=np.float64), probs[k % len(probs)], float(f)) for k, (g, f) in enumerate(zip(genomes, fits))]
    if via_clone:
        # the population a user builds with the public Individual.clone(): offspring cloned from one source, then given their own genome
        # and fitness (clones are distinct objects with distinct genomes)
        src = inds[0]
        built = [src]
        for k in range(1, len(inds)):
            c = src.clone()
            c.genome = np.array(genomes[k], dtype=np.float64)
            c.fitness = float(fits[k])
            built.append(c)
        inds = built
    if int_best:
        order = sorted(range(len(fits)), key=lambda i: (-fits[i] if maximize else fits[i]))
        b = order[0]
        if all(float(x).is_integer() for x in genomes[b]):
            inds[b].genome = np.array([int(x) for x in genomes[b]], dtype=np.int64)
    nbc = NearestBetterClustering(inds, factor, trunc)
    import warnings

    with warnings.catch_warnings():
        warnings.simplefilter("ignore")
        if peek:
            # the public read-only views looked at before clustering (a plotting helper, a debugger, a log line): must not matter
            for attr in ("distances", "tree"):
                try:
                    getattr(nbc, attr)
                except Exception:
                    pass
        out = nbc.cluster()
        dists = list(nbc.distances)
        if peek:
            # ... and cluster() asked again on the same object answers the same
            again = nbc.cluster()
            if [id(o) for o in again] != [id(o) for o in out]:
                raise AssertionError("second cluster() call on the same object returned a different result")
    idx_of = {id(i): k for k, i in enumerate(inds)}
    kept_idx = [idx_of.get(id(o), -1) for o in nbc.individuals]  # the (public) sorted and truncated list the object works on
    return [idx_of[id(o)] for o in out], dists, kept_idx


class C15Feature:
    """Tap-side monitor: every NBC generator call of a real run is re-derived with the reference."""

    prop = "C15"
    ctx = None

    def on_generator(self, g, out, tree):
        name = type(g).__name__
        if name not in ("NBC_Generator", "NBCGeneratorWithLocalMethod"):
            return
        from ..harness import canon

        ctx = self.ctx
        for deme, cand in out.items():
            if not deme.is_active:
                continue
            pop = deme.current_population
            genomes = [canon(i.genome).tolist() for i in pop]
            fits = [float(i.fitness) for i in pop]
            if len({tuple(x) for x in genomes}) != len(genomes) or not all(math.isfinite(f) for f in fits):
                ctx.cov["C15.real_population_skipped_duplicates_or_inf"] += 1
                continue
            K, kept, dist, mean, must, may = ref_nbc(genomes, fits, ctx.maximize, g.distance_factor, g.truncation_factor)
            if K < 2 or mean is None:
                continue
            sf = sorted(fits, reverse=ctx.maximize)
            if (K < len(fits) and sf[K - 1] == sf[K]) or sf[0] == sf[1]:
                # which of several equal individuals is kept / is "the best one" is the implementation's choice and not visible here
                ctx.cov["C15.real_population_skipped_tie_for_the_best_or_across_the_cut"] += 1
                continue
            ctx.cov["C15.real_populations_checked"] += 1
            ctx.cov[f"C15.real_populations.{type(deme).__name__}"] += 1
            f = cand.features.nbc_mean_distance
            if f is None or not (abs(float(f) - mean) <= 1e-12 * max(abs(mean), 1e-300)):
                ctx.violation("C15", "nbc_mean_distance feature of a real population differs from the reference mean", {"deme": deme.id, "feature": None if f is None else float(f), "reference": mean, "K": K})
            got = {next(k for k, p_ in enumerate(pop) if p_ is ind) for ind in cand.individuals if any(p_ is ind for p_ in pop)}
            best_fit = fits[kept[0]]
            tied = {i for i in kept if fits[i] == best_fit}
            missing = {i for i in must if i not in tied} - got
            extra = got - (must | may | tied)
            if missing or extra or not (got & tied):
                ctx.violation("C15", "clustering of a real population differs from the reference", {"deme": deme.id, "missing": sorted(missing)[:5], "extra": sorted(extra)[:5], "K": K, "n": len(pop)})


def run_case(desc):
    if desc.get("kind") == "c15run":
        from .. import harness
        from ..props import run_result

        ctx = harness.run_case(desc, [C15Feature()])
        return run_result(ctx, desc)
    cov = Counter()
    violations = []
    nontrivial = []
    genomes = [[float.fromhex(h) for h in row] for row in desc["genomes_hex"]]
    fits = [float.fromhex(h) for h in desc["fits_hex"]]
    maximize, factor, trunc, cls = desc["maximize"], desc["factor"], desc["trunc"], desc["cls"]
    n, d = len(fits), len(genomes[0])
    rng = gen.case_rng("C15meta", 0, desc.get("idx", 0))

    clone_built = desc.get("idx", 0) % 11 == 5 and cls != "int_best"

    def viol(key, **detail):
        if clone_built and key in ("a prescribed cluster seed is missing from the result", "number of nearest-better distances differs from the reference", "nearest-better distances differ from the reference"):
            key += " (population built with Individual.clone())"
        if sum(1 for v in violations if v["key"] == key) < 2:
            detail.update(cls=cls, n=n, dim=d, factor=factor, trunc=trunc, maximize=maximize)
            violations.append({"property": "C15", "key": key, "detail": detail})

    cov[f"class.{cls}.{'max' if maximize else 'min'}"] += 1
    K_exact = (Fraction(n) * Fraction(trunc)).__floor__()
    K, kept, dist, mean, must, may = ref_nbc(genomes, fits, maximize, factor, trunc)
    if K != K_exact:
        cov["skipped_floor_ambiguous"] += 1
        return {"violations": [], "cov": cov, "nontrivial": [], "sample": None}
    if K == 0:
        # nothing is kept: the prescribed result is the empty list
        cov["K_equals_0"] += 1
        try:
            got0, _, _k0 = _cluster(genomes, fits, maximize, factor, trunc, 1, False)
            if got0:
                viol("individuals returned although floor(n x truncation) == 0 keeps nothing", returned=len(got0))
        except Exception as e:
            viol("clustering raised an exception although floor(n x truncation) == 0 simply keeps nothing", error=repr(e)[:200])
        return {"violations": violations, "cov": cov, "nontrivial": [], "sample": None}
    if K == 1:
        cov["K_equals_1"] += 1
    if 0 < (K + 1) - n * trunc < 1e-9:
        cov["product_n_times_truncation_factor_just_below_an_integer"] += 1
    try:
        n_objs = desc.get("n_problem_objects", 1)
        cov[f"problem_objects.{min(n_objs, 3)}"] += 1
        peek = desc.get("idx", 0) % 5 == 2
        if peek:
            cov["public_views_read_before_clustering"] += 1
        via_clone = clone_built
        if via_clone:
            cov["populations_built_with_Individual.clone"] += 1
        got, dists, kept_lib = _cluster(genomes, fits, maximize, factor, trunc, n_objs, int_best=(cls == "int_best"), peek=peek, via_clone=via_clone)
    except Exception as e:
        viol("clustering raised an exception", error=repr(e)[:200])
        return {"violations": violations, "cov": cov, "nontrivial": [], "sample": None}
    if not admissible_kept(fits, maximize, K, kept_lib):
        viol("the kept part is not the best floor(n x truncation) individuals, best first", K=K, kept=kept_lib[:10])
        return {"violations": violations, "cov": cov, "nontrivial": [], "sample": None}
    if kept_lib != kept:
        cov["kept_part_differs_from_input_order_tie_break"] += 1
        K, kept, dist, mean, must, may = ref_nbc(genomes, fits, maximize, factor, trunc, kept=kept_lib)
    cov["populations"] += 1
    best_fit = fits[kept[0]]
    tied_best = [i for i in kept if fits[i] == best_fit]
    gs = set(got)
    if len(gs) != len(got):
        viol("an individual is returned twice")
    # (1) distances
    want_d = sorted(dist.values())
    got_d = sorted(float(x) for x in dists)
    if len(want_d) != len(got_d):
        viol("number of nearest-better distances differs from the reference", got=len(got_d), want=len(want_d), K=K)
    elif any(abs(a - b) > 1e-12 * max(abs(a), abs(b), 1e-300) for a, b in zip(want_d, got_d)):
        viol("nearest-better distances differ from the reference", got=got_d[:6], want=want_d[:6])
    # (2) seeds
    if not (gs & set(tied_best)):
        viol("the best individual is not among the returned seeds" + (" (K == 1)" if K == 1 else ""), returned=len(got), K=K)
    # when several individuals tie for the best, any of them is accepted as "the best one"
    must_eff = {i for i in must if i not in tied_best}
    missing = must_eff - gs
    allowed = must | may | set(tied_best)
    extra = gs - allowed
    if missing:
        i = sorted(missing)[0]
        viol("a prescribed cluster seed is missing from the result", index=i, distance=dist.get(i), threshold=factor * mean if mean is not None else None, K=K, returned=len(got))
    if extra:
        i = sorted(extra)[0]
        viol("an individual below the threshold (or outside the kept part) is returned as a seed", index=i, distance=dist.get(i), threshold=factor * mean if mean is not None else None, kept=i in kept)
    if len(tied_best) > 1 and len(gs & set(tied_best)) > 1:
        cov["several_tied_best_returned"] += 1
    if 2 <= len(must | may) < K:
        nontrivial.append([cls, n, d, factor, trunc])
    if cls in ("converged", "converged_offset"):
        cov["converged_populations"] += 1
    # (3a) the order of the input never matters - also not among equal fitness values (tied for the best, tied across the truncation cut)
    if not violations and cls != "int_best":
        p = list(range(n))
        rng.shuffle(p)
        try:
            got_p, _, _kp = _cluster([genomes[i] for i in p], [fits[i] for i in p], maximize, factor, trunc, 1, False)
            got_p = {p[k] for k in got_p}
            got_o, _, _ko = _cluster(genomes, fits, maximize, factor, trunc, 1, False)
            ties = len(set(fits)) < n
            cov["permutation_twins" + (".with_ties" if ties else "")] += 1
            cut_tie = 0 < K < n and sorted(fits, reverse=maximize)[K - 1] == sorted(fits, reverse=maximize)[K]
            if cut_tie:
                cov["permutation_twins.with_a_tie_across_the_truncation_cut"] += 1
            if len(tied_best) > 1:
                cov["permutation_twins.with_a_tie_for_the_best"] += 1
            if got_p != set(got_o):
                where = "a tie across the truncation cut" if cut_tie else ("a tie for the best" if len(tied_best) > 1 else ("tied fitness values" if ties else "distinct fitness values"))
                viol(f"result depends on the order of the input ({where})", original_order=sorted(got_o)[:8], permuted_order=sorted(got_p)[:8])
        except Exception as e:
            viol("clustering raised an exception on a permutation input", error=repr(e)[:200])
    # (3) metamorphic re-runs (only decided when the reference result is unambiguous: no band, unique best)
    if not may and len(tied_best) == 1 and not violations:
        base = frozenset(got)

        def same(name, g2, f2, mx2, perm=None):
            try:
                got2, _, kept2_lib = _cluster(g2, f2, mx2, factor, trunc, 1, False)
            except Exception as e:
                viol(f"clustering raised an exception on a {name} input", error=repr(e)[:200])
                return
            if perm is not None:
                got2 = [perm[k] for k in got2]
            cov[f"metamorphic.{name}"] += 1
            # re-derive the reference on the transformed input to keep the band honest
            K2 = int(len(f2) * trunc)
            if not admissible_kept(f2, mx2, K2, kept2_lib):
                viol(f"the kept part is not the best floor(n x truncation) individuals ({name} input)")
                return
            K2, kept2, dist2, mean2, must2, may2 = ref_nbc(g2, f2, mx2, factor, trunc, kept=kept2_lib)
            if may2 or K2 != K:
                cov["metamorphic_skipped_band"] += 1
                return
            if frozenset(got2) != base:
                viol(f"result changes under {name} of the input", before=sorted(base)[:10], after=sorted(set(got2))[:10])

        if len(set(fits)) == n:
            p = list(range(n))
            rng.shuffle(p)
            same("permutation", [genomes[i] for i in p], [fits[i] for i in p], maximize, perm=p)
        same("mirroring (f,max)<->(-f,min)", genomes, [-f for f in fits], not maximize)
        same("scaling by a power of two", [[x * 4.0 for x in g] for g in genomes], fits, maximize)
        if cls not in ("converged", "converged_offset"):
            t = [rng.uniform(-3, 3) for _ in range(d)]
            same("translation", [[x + t[j] for j, x in enumerate(g)] for g in genomes], fits, maximize)
            same("scaling by an arbitrary factor", [[x * 1.7 for x in g] for g in genomes], fits, maximize)
    sample = {"class": cls, "n": n, "dim": d, "factor": factor, "trunc": trunc, "maximize": maximize, "K": K, "reference_seeds": len(must | may), "returned": len(got)}
    return {"violations": violations, "cov": cov, "nontrivial": nontrivial, "sample": sample}
