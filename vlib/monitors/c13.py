"""C13 - maximising f == minimising -f: twin monitor (decision level and whole-run level).

Negation is exact in floating point, so every comparison is exactly mirrored and the two formulations must
select *identical* individuals, not merely close ones.
"""
import random
from collections import Counter

import numpy as np

from .. import gen, harness
from ..props import run_result

RUN_ROOTS = ["de", "de_dither", "shade", "lhs", "sobol"]
RUN_LEAVES = ["de", "shade", "cma", "cma_warm", "cma_stds", "local", "local_maxiter", "de_dither"]


def make_case(seed, idx, tier):
    rng = gen.case_rng("C13", seed, idx)
    if idx % 10 == 9:
        # whole-run twin
        prof = {
            "dim": (2, 3),
            "root": RUN_ROOTS[(idx // 10) % len(RUN_ROOTS)],
            "leaf": RUN_LEAVES[(idx // 10) % len(RUN_LEAVES)],
            "inner": rng.choice(["de", "shade", "cma"]),
            "levels": [2, 2, 3],
            "lscs": ["dontstop", "melimit", "children"],
            "gscs": ["melimit", "evals"],
            "sprout": rng.choice(["simple", "nbc"]),
            "stacks": False,
            "shared": False,
            "fams": ["rastrigin", "funnel", "sphere", "linear", "face", "absv", "plateau", "constant", "plateau"],
            "boxes": ["sym", "asym", "decimal"],
            "seeded_p": 1.0,
            "entry": "tree",
            "hibernation": False,
        }
        d = gen.gen_tree_case(rng, prof)
        d["options"]["random_seed"] = rng.randint(0, 10**6)
        d["kind"] = "c13run"
        if (idx // 10) % 4 == 2:
            # both formulations built with result caching on, run one after the other in one process: they visit the same genomes
            d["use_cache"] = True
        if (idx // 10) % 5 == 3:
            # the precision-reached stop condition (a problem wrapper that compares values with the optimum) on both formulations
            d["gsc"] = {"k": "precision", "eps": rng.choice([1e-1, 1e-2])}
            st = [f"prec:{d['gsc']['eps']}"]
            d["levels"][0]["stack"] = st
            d["levels"][0]["lsc"] = {"k": "dontstop"}
            d["run_twin_with_precision_gsc"] = True
        if (idx // 10) % 3 == 1 and d["gsc"]["k"] != "precision":
            # an evaluation-cutoff wrapper that runs out while the run goes on: the +-inf sentinels must mirror too
            d["gsc"] = {"k": "melimit", "n": rng.randint(5, 9)}
            for lv in d["levels"][1:] if rng.random() < 0.7 else d["levels"]:
                lv["stack"] = [f"cutoff:{rng.choice([40, 90, 150])}"]
        return d
    n = rng.randint(4, 24)
    if idx % 8 == 7:
        n = rng.randint(65, 200)  # sizes at which numpy (and any "large population" fast path) switches algorithm
    dim = rng.randint(1, 5)
    ties = rng.choice(["none", "none", "pairs", "levels", "all"])
    genomes = [[rng.uniform(-5, 5) for _ in range(dim)] for _ in range(n)]
    fits = [sum((x - 0.3) ** 2 for x in g) + 2.0 * sum(np.cos(3.0 * x) for x in g) for g in genomes]
    if ties == "pairs":
        for i in range(0, n - 1, 2):
            fits[i + 1] = fits[i]
    elif ties == "levels":
        fits = [float(round(f)) for f in fits]
    elif ties == "all":
        fits = [2.0] * n
    return {
        "kind": "c13dec",
        "genomes_hex": [[float(x).hex() for x in g] for g in genomes],
        "fits_hex": [float(f).hex() for f in fits],
        "ties": ties,
        "rng": rng.randint(0, 2**31 - 1),
        # boundary values are legal sizes too: k = 0 (k_elites=0: no elitism) and k = n (every parent an elite)
        "k": 0 if idx % 8 == 5 else (n if idx % 8 == 6 else rng.randint(1, max(1, n - 1))),
        "limit": rng.randint(1, 4),
        "idx": idx,
    }


def run_case(desc):
    if desc["kind"] == "c13run":
        return run_twin(desc)
    return run_decisions(desc)


# ----------------------------------------------------------------------------------------------------


def _problems(dim, table):
    from pyhms.core.problem import FunctionProblem

    bounds = np.array([[-6.0, 6.0]] * dim)

    if table == "plateau":

        def g(x):  # terraced objective: many exact ties among distinct individuals
            xs = np.asarray(x, dtype=np.float64).tolist()
            return float(sum(float(int(abs(v))) ** 2 for v in xs))

    else:

        def g(x):  # smooth deterministic function for the engines that evaluate new points
            xs = np.asarray(x, dtype=np.float64).tolist()
            return float(sum((v - 0.3) ** 2 for v in xs))

    pmax = FunctionProblem(lambda x: -g(x), bounds, True)  # (f = -g, maximise)
    pmin = FunctionProblem(lambda x: g(x), bounds, False)  # (-f = g, minimise)
    return pmax, pmin


def run_decisions(desc):
    from pyhms.core.individual import Individual
    from pyhms.core.population import Population
    from pyhms.demes.single_pop_eas.de import DE, SHADE
    from pyhms.demes.single_pop_eas.sea import SEA, TournamentSelection
    from pyhms.sprout.sprout_candidates import DemeCandidates, DemeFeatures
    from pyhms.sprout.sprout_filters import DemeLimit
    from pyhms.utils.clusterization import NearestBetterClustering
    from pyhms.utils.r5s import R5SSelection

    cov = Counter()
    violations = []
    genomes = [np.array([float.fromhex(h) for h in row]) for row in desc["genomes_hex"]]
    g = [float.fromhex(h) for h in desc["fits_hex"]]  # minimisation-form values
    n, dim = len(g), len(genomes[0])
    ties = desc["ties"]
    pmax, pmin = _problems(dim, "plateau" if ties != "none" else None)
    # formulation A: (f = -g, maximise); formulation B: (-f = g, minimise)
    A = [Individual(genomes[i].copy(), pmax, -g[i]) for i in range(n)]
    B = [Individual(genomes[i].copy(), pmin, g[i]) for i in range(n)]
    ia = {id(x): i for i, x in enumerate(A)}
    ib = {id(x): i for i, x in enumerate(B)}
    distinct = len(set(g))
    tag = "ties" if distinct < n else "no_ties"

    def viol(key, **detail):
        if sum(1 for v in violations if v["key"] == key) < 2:
            detail.update(n=n, dim=dim, ties=ties)
            violations.append({"property": "C13", "key": key, "detail": detail})

    def comp(name):
        cov[f"component.{name}.{tag}"] += 1

    # 1. ordering
    comp("ordering")
    sa = [ia[id(x)] for x in sorted(A)]
    sb = [ib[id(x)] for x in sorted(B)]
    if sa != sb:
        viol("sorted() orders individuals differently on (f,max) and (-f,min)", a=sa[:8], b=sb[:8])
    if ia[id(max(A))] != ib[id(max(B))] or ia[id(min(A))] != ib[id(min(B))]:
        viol("max()/min() of individuals differ between (f,max) and (-f,min)")
    ea = [[A[i] == A[j] for j in range(min(n, 6))] for i in range(min(n, 6))]
    eb = [[B[i] == B[j] for j in range(min(n, 6))] for i in range(min(n, 6))]
    if ea != eb:
        viol("== of individuals differs between (f,max) and (-f,min)")
    # best must really be the best
    best_true = min(range(n), key=lambda i: g[i])
    if g[ia[id(max(A))]] != g[best_true] or g[ib[id(max(B))]] != g[best_true]:
        viol("max() of individuals is not a best individual", maximize_side=g[ia[id(max(A))]], minimize_side=g[ib[id(max(B))]], best=g[best_true])

    # 2. top-k, select_new_population
    k = min(desc["k"], n)
    PA, PB = Population.from_individuals(A), Population.from_individuals(B)
    comp("topk")
    comp(f"topk.k={'0' if k == 0 else ('n' if k == n else 'between')}")
    if n > 64:
        comp("topk.more_than_64_individuals")
    ta, tb = PA.topk(k), PB.topk(k)
    if ta.size != k or tb.size != k:
        viol("Population.topk(k) does not keep k individuals", k=k, n=n, kept_on_maximisation=int(ta.size), kept_on_minimisation=int(tb.size))
    fa, fb = sorted((-ta.fitnesses).tolist()), sorted(tb.fitnesses.tolist())
    if fa != fb:
        viol("Population.topk keeps different fitness values on (f,max) and (-f,min)", k=k, a=fa[:6], b=fb[:6])
    if fb != sorted(g)[:k]:
        viol("Population.topk does not keep the k best", k=k)
    cut_tie = 0 < k < n and sorted(g)[k - 1] == sorted(g)[k]
    if cut_tie:
        comp("topk.tie_across_the_cut")
    ga = sorted(map(tuple, ta.genomes.tolist()))
    gb = sorted(map(tuple, tb.genomes.tolist()))
    if ga != gb:
        viol("Population.topk keeps different individuals on (f,max) and (-f,min)" + (" (fitness tie across the cut)" if cut_tie else ""), k=k)
    comp("select_new_population")
    ke = min(k, n)  # elite count of the (parents' elites + offspring) selection: 0 .. n
    comp(f"select_new_population.k_elites={'0' if ke == 0 else ('n' if ke == n else 'between')}")
    sea = SEA.create(problem=pmin, mutation_std=0.1, k_elites=ke)
    off_rng = random.Random(desc["rng"])
    og = [[off_rng.uniform(-5, 5) for _ in range(dim)] for _ in range(n)]
    ofit = [float(sum((v - 0.3) ** 2 for v in row)) for row in og]
    OA = Population(np.array(og), -np.array(ofit), pmax)
    OB = Population(np.array(og), np.array(ofit), pmin)
    na_, nb_ = sea.select_new_population(PA, OA), sea.select_new_population(PB, OB)
    if sorted((-na_.fitnesses).tolist()) != sorted(nb_.fitnesses.tolist()):
        viol("BaseSEA.select_new_population keeps different fitness values on (f,max) and (-f,min)")
    want = sorted(ofit + sorted(g)[:ke])[:n]
    if sorted(nb_.fitnesses.tolist()) != want or sorted((-na_.fitnesses).tolist()) != want:
        viol(
            "BaseSEA.select_new_population does not keep the n best of (offspring + the k_elites best parents)",
            k_elites=ke, n=n, direction_that_differs="maximisation" if sorted(nb_.fitnesses.tolist()) == want else "minimisation (or both)",
        )
    merged_sorted = sorted(ofit + sorted(g)[:ke])
    sel_cut_tie = len(merged_sorted) > n and merged_sorted[n - 1] == merged_sorted[n]
    elite_cut_tie = 0 < ke < n and sorted(g)[ke - 1] == sorted(g)[ke]
    if sel_cut_tie or elite_cut_tie:
        comp("select_new_population.tie_across_a_cut")
    if sorted(map(tuple, na_.genomes.tolist())) != sorted(map(tuple, nb_.genomes.tolist())):
        viol("BaseSEA.select_new_population keeps different individuals on (f,max) and (-f,min)" + (" (fitness tie across a cut)" if sel_cut_tie or elite_cut_tie else ""), k_elites=ke)
    if nb_.size != n or na_.size != n:
        viol("BaseSEA.select_new_population changes the population size", a=int(na_.size), b=int(nb_.size), n=n)

    # 3. tournament selection (same RNG state)
    comp("tournament")
    np.random.seed(desc["rng"] % (2**32))
    wa = TournamentSelection()(PA)
    np.random.seed(desc["rng"] % (2**32))
    wb = TournamentSelection()(PB)
    if not np.array_equal(wa.genomes, wb.genomes) or not np.array_equal(-wa.fitnesses, wb.fitnesses):
        viol("TournamentSelection picks different winners on (f,max) and (-f,min)")

    # 4. DE / SHADE one generation (same RNG state): identical genomes in identical order
    if n >= 5:
        for name, mk in (("DE", lambda: DE(use_dither=False, crossover_probability=0.9, f=0.8)), ("DE_dither", lambda: DE(use_dither=True, crossover_probability=0.5)), ("SHADE", lambda: SHADE(4, n))):
            comp(name)
            # stored fitness must be the true one for the engines' comparisons to be meaningful
            A2 = [Individual(genomes[i].copy(), pmax, pmax.evaluate(genomes[i])) for i in range(n)]
            B2 = [Individual(genomes[i].copy(), pmin, pmin.evaluate(genomes[i])) for i in range(n)]
            ea_, eb_ = mk(), mk()
            outa = outb = None
            for rep in range(3):
                np.random.seed((desc["rng"] + rep) % (2**32))
                random.seed(desc["rng"] + rep)
                outa = ea_.run(A2 if outa is None else outa)
                np.random.seed((desc["rng"] + rep) % (2**32))
                random.seed(desc["rng"] + rep)
                outb = eb_.run(B2 if outb is None else outb)
                xa = np.array([i.genome for i in outa])
                xb = np.array([i.genome for i in outb])
                fa_ = [-i.fitness for i in outa]
                fb_ = [i.fitness for i in outb]
                if not np.array_equal(xa, xb) or fa_ != fb_:
                    viol(f"{name}.run yields different populations on (f,max) and (-f,min)", generation=rep + 1)
                    break

    # 5. NBC
    comp("NBC")
    ca = NearestBetterClustering(A, 2.0, 1.0)
    cb = NearestBetterClustering(B, 2.0, 1.0)
    import warnings

    with warnings.catch_warnings():
        warnings.simplefilter("ignore")
        ra, rb = ca.cluster(), cb.cluster()
        da, db = sorted(ca.distances), sorted(cb.distances)
    if distinct == n:
        if sorted(ia[id(x)] for x in ra) != sorted(ib[id(x)] for x in rb):
            viol("NearestBetterClustering.cluster differs between (f,max) and (-f,min)")
    if da != db:
        viol("NearestBetterClustering.distances differ between (f,max) and (-f,min)")

    # 6. DemeLimit (candidates of one fake parent)
    comp("DemeLimit")
    lim = desc["limit"]

    class _P:  # stand-in for a deme key
        level = 0

    pa_, pb_ = _P(), _P()
    ka = DemeLimit(lim)({pa_: DemeCandidates(list(A), DemeFeatures())}, None)[pa_].individuals
    kb = DemeLimit(lim)({pb_: DemeCandidates(list(B), DemeFeatures())}, None)[pb_].individuals
    if [ia[id(x)] for x in ka] != [ib[id(x)] for x in kb]:
        viol("DemeLimit keeps different candidates on (f,max) and (-f,min)", limit=lim)
    if sorted(g[ia[id(x)]] for x in ka) != sorted(g)[: min(lim, n)]:
        viol("DemeLimit does not keep the best candidates", limit=lim, maximize=True)
    if sorted(g[ib[id(x)]] for x in kb) != sorted(g)[: min(lim, n)]:
        viol("DemeLimit does not keep the best candidates", limit=lim, maximize=False)

    # 7. LevelLimit on a minimal fake tree (two levels, `occupied` active demes below)
    comp("LevelLimit")
    from pyhms.sprout.sprout_filters import LevelLimit

    class _D:
        def __init__(self, level, active=True):
            self.level, self.is_active = level, active

    class _T:
        def __init__(self, occupied):
            self.levels = [[_D(0)], [_D(1) for _ in range(occupied)]]

    occ = desc["limit"] - 1 if desc["limit"] > 1 else 0
    L = occ + max(1, min(3, n // 2))
    ra_, rb_ = _D(0), _D(0)
    la = LevelLimit(L)({ra_: DemeCandidates(list(A), DemeFeatures())}, _T(occ))[ra_].individuals
    lb = LevelLimit(L)({rb_: DemeCandidates(list(B), DemeFeatures())}, _T(occ))[rb_].individuals
    sa_, sb_ = sorted(ia[id(x)] for x in la), sorted(ib[id(x)] for x in lb)
    if sa_ != sb_:
        viol("LevelLimit keeps different candidates on (f,max) and (-f,min)", limit=L, occupied=occ, kept_max=[g[i] for i in sa_][:5], kept_min=[g[i] for i in sb_][:5], best=sorted(g)[:3])

    # 8. R5S
    if n > 5:
        comp("R5S")
        r_a = R5SSelection()(list(A))
        r_b = R5SSelection()(list(B))
        if [ia[id(x)] for x in r_a] != [ib[id(x)] for x in r_b]:
            viol("R5SSelection selects different individuals on (f,max) and (-f,min)", a=[g[ia[id(x)]] for x in r_a][:5], b=[g[ib[id(x)]] for x in r_b][:5], best=sorted(g)[:3])

    # 9. cutoff sentinel sign
    comp("cutoff_sentinel")
    from pyhms.core.problem import EvalCutoffProblem

    ca_, cb_ = EvalCutoffProblem(pmax, 0), EvalCutoffProblem(pmin, 0)
    va, vb = ca_.evaluate(genomes[0]), cb_.evaluate(genomes[0])
    if not (va == -np.inf and vb == np.inf):
        viol("EvalCutoffProblem sentinel is not the direction's worst value", max_side=float(va), min_side=float(vb))

    nontrivial = [["decision", tag, ties]] if distinct >= 3 else []
    sample = {"n": n, "dim": dim, "ties": ties, "distinct_fitness": distinct}
    return {"violations": violations, "cov": cov, "nontrivial": nontrivial, "sample": sample}


# ----------------------------------------------------------------------------------------------------


def _shape(tree):
    return [(d.id, d.level, type(d).__name__, d.started_at, d.is_active, d.n_evaluations, d.metaepoch_count) for lvl in tree.levels for d in lvl]


def run_twin(desc):
    da = dict(desc)
    da["maximize"] = True  # f = -g, maximise
    db = dict(desc)
    db["maximize"] = False  # -f = g, minimise
    ca = harness.run_case(da)
    cb = harness.run_case(db)
    res = run_result(ca, da)
    cov = res["cov"]
    cov["run_twins"] += 1
    if desc.get("use_cache"):
        cov["run_twins_with_result_caching_on_both_formulations"] += 1
    if desc.get("run_twin_with_precision_gsc"):
        cov["run_twins_under_the_precision_stop_condition"] += 1
    for lv in desc["levels"]:
        cov[f"twin_engine.{lv['engine']}"] += 1
    if ca.aborted or cb.aborted:
        cov["run_twins_aborted"] += 1
        if bool(ca.aborted) != bool(cb.aborted):
            ca.violation("C13", "one formulation of a run twin aborted and the other did not", {"max": str(ca.aborted)[:300], "min": str(cb.aborted)[:300]})
        res["violations"] = ca.violations
        return res
    xa = [e[1] for e in ca.log]
    xb = [e[1] for e in cb.log]
    ya = [-e[2] for e in ca.log]
    yb = [e[2] for e in cb.log]
    k = next((i for i, (p, q) in enumerate(zip(xa, xb)) if p != q), None)
    if k is None and len(xa) != len(xb):
        k = min(len(xa), len(xb))
    if k is not None:
        ca.violation(
            "C13",
            "whole-run twin diverges: " + _first_owner(ca, k),
            {"first_divergent_evaluation": k, "evaluations_max": len(xa), "evaluations_min": len(xb), "engines": gen.engine_mix(desc), "sprout": desc["sprout"]["k"]},
        )
    elif ya != yb:
        ca.violation("C13", "whole-run twin: same genomes but fitness values are not mirrored", {})
    elif _shape(ca.tree) != _shape(cb.tree):
        ca.violation("C13", "whole-run twin builds different trees", {"max": _shape(ca.tree)[:6], "min": _shape(cb.tree)[:6]})
    elif _mirrored(ca.tree, -1.0) != _mirrored(cb.tree, 1.0):
        ma, mb = _mirrored(ca.tree, -1.0), _mirrored(cb.tree, 1.0)
        k = next(i for i, (p, q) in enumerate(zip(ma, mb)) if p != q)
        ca.violation("C13", f"whole-run twin: stored individuals are not mirrored ({ma[k][2]})", {"deme": ma[k][0], "what": ma[k][1], "max_side": str(ma[k][3])[:80], "min_side": str(mb[k][3])[:80]})
    else:
        cov["run_twins_identical"] += 1
        if len({round(v, 12) for v in yb}) >= 3:
            res["nontrivial"].append(["run", gen.engine_mix(desc), desc["sprout"]["k"]])
    res["violations"] = ca.violations
    res["sample"]["twin"] = {"evaluations_max": len(xa), "evaluations_min": len(xb)}
    return res


def _mirrored(tree, sign):
    """Everything stored, with fitness brought to minimisation form: must be identical for the two formulations."""
    from ..harness import canon

    out = []
    for lvl in tree.levels:
        for d in lvl:
            cname = type(d).__name__
            for gi, gen_ in enumerate(d.history):
                out.append((d.id, f"generation {gi}", cname, [(canon(i.genome).tobytes(), sign * float(i.fitness)) for i in gen_]))
            b = d.best_individual
            if b is not None:
                out.append((d.id, "best_individual", cname, (canon(b.genome).tobytes(), sign * float(b.fitness))))
    tb = tree.best_individual
    out.append(("tree", "best_individual", "DemeTree", (canon(tb.genome).tobytes(), sign * float(tb.fitness))))
    return out


def _first_owner(ctx, k):
    """Deme class evaluating at call index k (from the attribution scopes recorded in the trace is not kept; use
    the level tag of the log entry)."""
    try:
        tag = ctx.log[k][0] if k < len(ctx.log) else ctx.log[-1][0]
        eng = ctx.desc["levels"][tag]["engine"] if tag >= 0 else "shared"
        return f"first divergent evaluation made on the level running {eng}"
    except Exception:
        return "first divergent evaluation (level unknown)"
