"""Twin-run monitors: budget pairs (C04), seeded repeats (C14), min/max mirror (C13), dump/load (C19)."""
from collections import Counter

from .. import harness
from ..props import run_result


def run_budget_pair(desc):
    """Same seed, budgets N1 < N2: log1 must be a bytewise prefix of log2 and fun2 <= fun1 (C04)."""
    from .c01_c04 import C04Best

    d1 = dict(desc)
    d1["maxfun"] = desc["maxfun"]
    d2 = dict(desc)
    d2["maxfun"] = desc["maxfun2"]
    d2["gsc"] = {"k": "evals", "n": desc["maxfun2"]}
    c1 = harness.run_case(d1, [C04Best()])
    c2 = harness.run_case(d2, [C04Best()])
    res = run_result(c1, d1)
    cov = res["cov"]
    cov.update(c2.cov)
    res["violations"].extend(c2.violations)
    if c1.aborted or c2.aborted:
        cov["budget_pairs_aborted"] += 1
        return res
    cov["C04.budget_pairs"] += 1
    l1 = [(e[1], e[2]) for e in c1.log]
    l2 = [(e[1], e[2]) for e in c2.log]
    if l2[: len(l1)] != l1:
        k = next((i for i, (a, b) in enumerate(zip(l1, l2)) if a != b), min(len(l1), len(l2)))
        c1.violation("C04", "minimize(): a larger maxfun does not replay the smaller budget's evaluations as a prefix", {"n1": d1["maxfun"], "n2": d2["maxfun"], "first_difference_at_call": k, "len1": len(l1), "len2": len(l2)})
        res["violations"] = c1.violations + c2.violations
    if c2.result.fun > c1.result.fun:
        c1.violation("C04", "minimize(): a larger maxfun yielded a worse result", {"n1": d1["maxfun"], "n2": d2["maxfun"], "fun1": c1.result.fun, "fun2": c2.result.fun})
        res["violations"] = c1.violations + c2.violations
    if len(l2) > len(l1):
        res["nontrivial"].append(["budget-pair", d1["maxfun"] < res["sample"]["observed"]["evaluations"] + 1, len(l1), len(l2)])
        cov["C04.budget_pairs_with_longer_second_log"] += 1
    res["sample"]["pair"] = {"n1": d1["maxfun"], "n2": d2["maxfun"], "calls1": len(l1), "calls2": len(l2), "fun1": c1.result.fun, "fun2": c2.result.fun}
    return res
