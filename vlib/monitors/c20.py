"""C20 - reports agree with the tree; looking at a tree does not change it."""
import hashlib
import random
import re

import numpy as np

from ..harness import canon
from .base import Monitor

LINE = re.compile(
    r"^(?P<prefix>.*?)(?P<cls>[A-Za-z]+Deme) (?P<id>\S+?)(?P<star> \*\*\* | )f\((?P<x>[^)]*)\) ~= (?P<fit>\S+?)"
    r"(?: sprout: \((?P<sprout>[^)]*)\);)? evals: (?P<evals>\d+) (?P<new>\(new_deme\))?$"
)


def _vd(o, depth=0) -> str:
    """Value digest of an accessor's answer."""
    h = hashlib.sha1()

    def up(x, d=0):
        if d > 6:
            h.update(b"...")
        elif x is None or isinstance(x, (bool, int, str)):
            h.update(repr(x).encode())
        elif isinstance(x, float):
            h.update(np.float64(x).tobytes())
        elif isinstance(x, np.ndarray):
            h.update(np.ascontiguousarray(x, dtype=np.float64).tobytes())
        elif isinstance(x, (list, tuple)):
            h.update(f"[{len(x)}".encode())
            for y in x:
                up(y, d + 1)
        elif isinstance(x, dict):
            for k in sorted(x, key=repr):
                up(k, d + 1)
                up(x[k], d + 1)
        elif hasattr(x, "genome") and hasattr(x, "fitness"):
            h.update(canon(x.genome).tobytes())
            h.update(np.float64(np.nan if x.fitness is None else x.fitness).tobytes())
        elif hasattr(x, "id") and hasattr(x, "level"):
            h.update(f"deme:{x.id}".encode())
        else:
            h.update(type(x).__name__.encode())

    up(o)
    return h.hexdigest()


class C20Reports(Monitor):
    prop = "C20"

    def __init__(self):
        super().__init__()
        self.rng = None

    def _true_best(self, tree):
        best = None
        for d in self.all_demes(tree):
            for i in d.all_individuals:
                if best is None or self.better(i.fitness, best):
                    best = i.fitness
        return best

    def _deme_best(self, d):
        best = None
        for i in d.all_individuals:
            if best is None or self.better(i.fitness, best):
                best = i.fitness
        return best

    def _check_reports(self, tree, where):
        ctx = self.ctx
        text = tree.summary()
        ttext = tree.tree()
        self.cov("reports_checked")
        lines = text.split("\n")
        tb = self._true_best(tree)

        def need(prefix, want, section):
            for ln in section:
                if ln.startswith(prefix):
                    got = ln[len(prefix) :].strip()
                    if got != want:
                        self.v(f"summary(): '{prefix.strip()}' disagrees with the tree", reported=got, tree=want, where=where)
                    return
            self.v(f"summary(): line '{prefix.strip()}' missing", where=where)

        head = []
        for ln in lines:
            if ln.startswith("Level ") or ln.strip() == "":
                break
            head.append(ln)
        need("Metaepoch count:", str(tree.metaepoch_count), head)
        need("Best fitness:", f"{tb:.4e}", head)
        need("Number of evaluations:", str(sum(d.n_evaluations for d in self.all_demes(tree))), head)
        need("Number of demes:", str(len(self.all_demes(tree))), head)
        # per level
        for li, lvl in enumerate(tree.levels):
            try:
                s = lines.index(f"Level {li+1}.")
            except ValueError:
                self.v("summary(): level section missing", level=li + 1)
                continue
            sec = []
            for ln in lines[s + 1 :]:
                if ln.startswith("Level ") or ln.strip() == "":
                    break
                sec.append(ln)
            if not lvl:
                if "No demes available." not in sec:
                    self.v("summary(): empty level not reported as such", level=li + 1, section=sec[:3])
                continue
            lb = None
            for d in lvl:
                b = self._deme_best(d)
                if b is not None and (lb is None or self.better(b, lb)):
                    lb = b
            need("Best fitness:", f"{lb:.4e}", sec)
            need("Number of evaluations:", str(sum(d.n_evaluations for d in lvl)), sec)
            need("Number of demes:", str(len(lvl)), sec)
            if self.ctx.desc.get("per_level_report_with_a_shared_stats_wrapper") and sum(1 for l_ in tree.levels if l_) >= 2:
                self.cov("per_level_lines_checked_with_one_stats_wrapper_shared_by_two_populated_levels")
        if ttext not in text:
            self.v("tree() is not contained in the default summary()", where=where)
        # tree() lines
        shown = {}
        for ln in ttext.split("\n"):
            if not ln.strip():
                continue
            m = LINE.match(ln)
            if not m:
                self.v("tree(): line cannot be parsed", line=ln[:160])
                continue
            did = m.group("id")
            if did in shown:
                self.v("tree(): a deme is displayed twice", deme=did)
            shown[did] = m
        by_id = {d.id: d for d in self.all_demes(tree)}
        want = {d.id for d in self.all_demes(tree) if d.level == 0 or d.metaepoch_count >= 1}
        if set(shown) != want:
            self.v(
                "tree(): displayed demes != root + demes that ran at least one metaepoch",
                missing=sorted(want - set(shown))[:5],
                unexpected=sorted(set(shown) - want)[:5],
                where=where,
            )
        n_star = 0
        for did, m in shown.items():
            d = by_id.get(did)
            if d is None:
                continue
            if int(m.group("evals")) != d.n_evaluations:
                self.v("tree(): evals of a deme line != that deme's evaluation count", deme=did, shown=int(m.group("evals")), tree=d.n_evaluations)
            if m.group("cls") != type(d).__name__:
                self.v("tree(): deme type on the line != the deme's class", deme=did)
            star = "***" in m.group("star")
            should = self._deme_best(d) == tb
            n_star += star
            if star != should:
                self.v(
                    "tree(): *** marker " + ("missing on a deme holding the global best" if should else "on a deme that does not hold the global best") + (" (best fitness exactly 0.0)" if tb == 0 else ""),
                    deme=did,
                    deme_best=float(self._deme_best(d)),
                    global_best=float(tb),
                    where=where,
                )
            want_fit = f"{self._deme_best(d):.2e}"
            if m.group("fit") != want_fit:
                self.v("tree(): fitness on a deme line != that deme's best fitness", deme=did, shown=m.group("fit"), tree=want_fit)
        if n_star >= 2:
            self.cov("two_demes_share_global_best")
        if tb == 0:
            self.cov("best_fitness_exactly_zero")
        if any(d.level > 0 and d.metaepoch_count == 0 for d in by_id.values()) and any(d.level > 0 and d.metaepoch_count >= 1 for d in by_id.values()):
            self.cov("displayed_and_not_yet_displayed_child")
        if len(shown) >= 3:
            from ..gen import engine_mix

            self.nt((len(tree.levels), engine_mix(ctx.desc), ctx.step))

    def _accessors(self, tree):
        acc = [
            ("summary", lambda: re.sub(r"Problem duration[^\n]*\n?", "", tree.summary())),
            ("tree", lambda: tree.tree()),
            ("best_individual", lambda: tree.best_individual),
            ("all_individuals", lambda: tree.all_individuals),
            ("r5s_solutions", lambda: tree.r5s_solutions),
            ("all_demes", lambda: tree.all_demes),
            ("active_demes", lambda: tree.active_demes),
            ("n_evaluations", lambda: tree.n_evaluations),
        ]
        acc += [("levels", lambda: tree.levels), ("leaves", lambda: tree.leaves), ("root", lambda: tree.root), ("height", lambda: tree.height), ("active_non_leaves", lambda: tree.active_non_leaves)]
        if tree.leaves:
            acc.append(("best_leaf_individual", lambda: tree.best_leaf_individual))
        for d in self.all_demes(tree):
            acc += [
                (f"deme.best_individual", lambda d=d: d.best_individual),
                (f"deme.best_current_individual", lambda d=d: d.best_current_individual),
                (f"deme.centroid", lambda d=d: d.centroid),
                (f"deme.best_fitness_by_metaepoch", lambda d=d: d.best_fitness_by_metaepoch),
                (f"deme.history", lambda d=d: d.history),
                (f"deme.n_evaluations", lambda d=d: d.n_evaluations),
                (f"deme.current_population", lambda d=d: d.current_population),
                (f"deme.all_individuals", lambda d=d: d.all_individuals),
                (f"deme.children", lambda d=d: d.children),
                (f"deme.mean", lambda d=d: d.mean),
                (f"deme.metaepoch_count", lambda d=d: (d.metaepoch_count, d.is_active, d.started_at, d.level, d.id, d.name)),
                (f"deme.str", lambda d=d: str(d) if d.current_population else None),
            ]
        return acc

    def _check_purity(self, tree, where):
        from ..observe import raw_digest, rng_fingerprint

        ctx = self.ctx
        if self.rng is None:
            self.rng = random.Random(ctx.desc.get("np_seed", 0))
        acc = self._accessors(tree)
        self.rng.shuffle(acc)
        for name, fn in acc[:60]:
            n0 = len(ctx.log)
            dg0 = raw_digest(tree)
            r0 = rng_fingerprint()
            def call():
                # a reporting / query accessor of a reachable tree answers; an exception is not an answer
                try:
                    return _vd(fn())
                except Exception as e:
                    self.cov(f"accessor_raised.{name}.{type(e).__name__}")
                    self.v(f"a reporting / query accessor raised instead of answering: {name}: {type(e).__name__}", error=repr(e)[:160])
                    return "raised:" + type(e).__name__

            a = call()
            b = call()
            self.cov("accessor_calls", 2)
            self.cov(f"accessor.{name}")
            if len(ctx.log) != n0:
                self.v(f"a reporting / query accessor invoked the objective: {name}", calls=len(ctx.log) - n0)
            if raw_digest(tree) != dg0:
                self.v(f"a reporting / query accessor changed the tree's state: {name}", where=where)
            if rng_fingerprint() != r0:
                self.v(f"a reporting / query accessor consumed global random numbers: {name}")
            if a != b:
                self.v(f"an accessor gives a different answer when called twice: {name}")

    def _at(self, tree, where):
        self._check_reports(tree, where)
        self._check_purity(tree, where)

    def on_gsc(self, tree, verdict, kind, deme):
        """A user-defined stop condition may read the tree whenever it is consulted (also in the middle of a metaepoch):
        looking then must be just as harmless.  Only purity is judged here; the reports are judged at the boundaries."""
        from ..observe import raw_digest, rng_fingerprint

        ctx = self.ctx
        if ctx.n_gsc % 3 or not tree.levels[0] or not tree.root.history:
            return
        n0, dg0, r0 = len(ctx.log), raw_digest(tree), rng_fingerprint()
        try:
            tree.best_individual
            tree.summary()
            tree.n_evaluations
        except Exception as e:
            self.cov(f"accessor_raised_mid_metaepoch.{type(e).__name__}")
            return
        self.cov("mid_metaepoch_looks")
        if len(ctx.log) != n0:
            self.v("a reporting / query accessor invoked the objective: looking in the middle of a metaepoch")
        if raw_digest(tree) != dg0:
            self.v("a reporting / query accessor changed the tree's state: looking in the middle of a metaepoch")
        if rng_fingerprint() != r0:
            self.v("a reporting / query accessor consumed global random numbers: looking in the middle of a metaepoch")

    def on_tree_ready(self, tree):
        self._at(tree, "start")

    def on_step_end(self, tree):
        self._at(tree, f"boundary {self.ctx.step}")

    def on_run_end(self, tree):
        self._at(tree, "end")
