"""Run-based monitors C05 (stop), C06 (lifecycle), C07 (structure/seeds), C08 (level limit), C09 (distance)."""
from collections import Counter

import numpy as np

from ..harness import canon, gen_digest
from .base import ENGINE_CLASS, Monitor, hexf, ind_key, peek_centroid, true_centroid

POP_BOUND_ENGINES = {"EADeme", "DEDeme", "SHADEDeme", "LHSDeme", "SobolDeme", "RandomSearchDeme", "CMADeme"}


class C05Stop(Monitor):
    prop = "C05"

    def __init__(self):
        super().__init__()
        self.T = None
        self.inflight = None
        self.enters_after = Counter()
        self.consults_after = Counter()
        self.run_consults = []
        self.evals_at_T = {}
        self.nonmonotone = False
        self.entered_in_step = 0
        self.awake_at_step_begin = 0
        self.started_count = None

    def _bad(self, key, **detail):
        if self.nonmonotone:
            self.cov("after_T_event_under_nonmonotone_gsc")
        else:
            self.v(key, **detail)

    def on_tree_created(self, tree, n):
        self.started_count = tree.metaepoch_count

    def on_step_begin(self, tree):
        self.entered_in_step = 0
        hib = bool(self.ctx.desc.get("options", {}).get("hibernation"))
        self.awake_at_step_begin = sum(1 for d in self.all_demes(tree) if d.is_active and not (hib and d._hibernating))
        if self.T is not None:
            self._bad("a new metaepoch was started after the global stop condition had been observed true", T=self.T, step=self.ctx.step)

    def on_deme_enter(self, deme):
        self.entered_in_step += 1
        if self.T is not None:
            self.enters_after[deme.id] += 1
            try:
                gens = self.ctx.desc["levels"][deme.level].get("gens", 1)
            except Exception:
                gens = 1
            if gens >= 2 and type(deme).__name__ in POP_BOUND_ENGINES:
                # the wind-down bound (one generation) is only a constraint on an engine configured for several per metaepoch
                self.cov(f"metaepoch_entered_after_true_with_2_or_more_generations_configured.{type(deme).__name__}")
            if deme.id == self.inflight:
                self._bad("the deme in flight when the GSC became true ran another metaepoch", deme=deme.id)
            elif self.enters_after[deme.id] > 1:
                self._bad("a deme ran more than one metaepoch after the GSC became true", deme=deme.id)

    def _ref_gsc(self, tree):
        """The documented rule of each shipped global stop condition, recomputed from the tree's public state."""
        ctx = self.ctx
        g = ctx.desc.get("gsc", {})
        k = g.get("k")
        demes = self.all_demes(tree)
        if k == "melimit":
            return tree.metaepoch_count >= g["n"]
        if k == "dontrun":
            return True
        if k == "evals":
            return sum(d.n_evaluations for d in demes) >= g["n"]
        if k == "fevals":
            nl = len(ctx.desc["levels"])
            w = g.get("w", "equal") if "w" in g else "equal"
            weights = [1] * nl if w in ("equal", None) else ([1] + [0] * (nl - 1) if w == "root" else list(w))
            return sum(weights[d.level] * d.n_evaluations for d in demes) >= g["n"]
        if k == "rootstopped":
            return not tree.root.is_active
        if k == "allstopped":
            return not any(d.is_active for d in demes)
        if k == "nononroot":
            step = tree.metaepoch_count
            for lvl in tree.levels[1:]:
                if not lvl:
                    return False
                for d in lvl:
                    if d.is_active or step <= d.started_at + d.metaepoch_count + g["n"]:
                        return False
            return True
        return None  # precision: decided by the wrapper (C16); minimize(): evals on requests, checked through nit / nfev

    def _ref_precision(self, verdict):
        """SingularProblemPrecisionReached, recomputed from the recorder: true iff some value that went through the precision wrapper of
        the root level's problem lies within the precision of the optimum (abs(value - optimum) <= precision, nothing relative)."""
        from ..objectives import g_min

        ctx = self.ctx
        desc = ctx.desc
        st = desc["levels"][0]["stack"]
        prec = float(next(s_ for s_ in st if s_.startswith("prec:")).split(":")[1])
        opt = ctx.sign * g_min(desc["obj"], desc["box"]["bounds"])
        tag = -1 if desc.get("shared") else 0
        log = ctx.log
        start = getattr(self, "_prec_scanned", 0)
        hit = getattr(self, "_prec_hit", False)
        closest = getattr(self, "_prec_closest", float("inf"))
        for t_, _x, y in log[start:]:
            if t_ == tag:
                gap = abs(y - opt)
                if gap < closest:
                    closest = gap
                if gap <= prec:
                    hit = True
        self._prec_scanned, self._prec_hit, self._prec_closest = len(log), hit, closest
        self.cov("precision_gsc_verdicts_compared_with_the_recorder")
        if opt != 0 and prec < 1e-9 * abs(opt):
            self.cov("precision_gsc_with_precision_far_below_the_optimum_s_magnitude")
        if verdict and not hit:
            self.v(
                "precision stop condition true although no evaluated value lies within the precision of the optimum",
                optimum=float(opt), precision=prec, closest_gap=float(closest),
            )
        if hit and not verdict and not any(s_.startswith("cutoff") for s_ in st):
            self.v("precision stop condition false although an evaluated value lies within the precision of the optimum", optimum=float(opt), precision=prec, closest_gap=float(closest))

    def on_gsc(self, tree, verdict, kind, deme):
        ctx = self.ctx
        if ctx.desc.get("kind") != "minimize" and ctx.desc.get("gsc", {}).get("k") == "precision":
            self._ref_precision(bool(verdict))
        g_ = ctx.desc.get("gsc", {})
        if g_.get("k") == "fevals" and g_.get("w") == "root" and g_.get("w_spelling") == "str" and len(self.all_demes(tree)) > 1:
            self.cov("fevals_root_weighting_given_as_plain_string_consulted_with_child_demes")
        if ctx.desc.get("kind") != "minimize":
            try:
                want = self._ref_gsc(tree)
            except Exception:
                want = None
            if want is not None:
                self.cov("gsc_verdicts_compared_with_documented_rule")
                if bool(want) != bool(verdict):
                    self.v(
                        f"global stop condition's verdict differs from its documented rule: {ctx.desc['gsc']['k']}",
                        verdict=bool(verdict),
                        rule=bool(want),
                        where=kind,
                        metaepoch=tree.metaepoch_count,
                        active=[d.id for d in self.all_demes(tree) if d.is_active][:6],
                    )
        if kind == "run":
            self.run_consults.append(verdict)
            act = [d for d in self.all_demes(tree) if d.is_active]
            if act and all(d._hibernating for d in act) and any(not d.is_active for d in self.all_demes(tree)):
                self.cov("gsc_consulted_while_only_sleeping_demes_are_active")
        if self.T is None:
            if verdict:
                self.T = {"gsc_index": ctx.n_gsc, "eval": len(ctx.log), "kind": kind, "deme": deme.id if deme is not None else None, "step": ctx.step}
                self.inflight = deme.id if deme is not None else None
                self.evals_at_T = {d.id: ctx.attributed(d.id) for d in self.all_demes(tree)}
                still = self.awake_at_step_begin - self.entered_in_step if kind == "deme" else 0
                g = ctx.desc["gsc"]["k"]
                self.cov(f"first_true.{kind}")
                self.cov(f"gsc_true.{g}")
                if kind == "deme":
                    self.cov(f"first_true_inside.{type(deme).__name__}.still_to_run={min(still, 3)}")
                    if still >= 1:
                        self.nt((g, type(deme).__name__, min(still, 3)))
                    if still >= 2:
                        self.cov("first_true_inside_with_2_to_run")
                elif kind == "run" and ctx.step == 0:
                    self.cov("first_true_before_first_step")
                    self.nt((g, "before-first-step", 0))
                elif kind in ("run", "run_step"):
                    self.cov("first_true_at_boundary")
                    self.nt((g, "boundary:" + kind, 0))
        else:
            if not verdict:
                self.nonmonotone = True
                self.cov("gsc_false_again_after_true")
            if kind == "deme":
                self.consults_after[deme.id] += 1
                if deme.id == self.inflight:
                    self._bad("the deme in flight performed another generation after the GSC became true", deme=deme.id, engine=type(deme).__name__)
                elif self.consults_after[deme.id] > 1:
                    self._bad(
                        f"a deme performed more than one generation after the GSC became true: {type(deme).__name__}",
                        deme=deme.id,
                        generations_after=self.consults_after[deme.id],
                    )

    def on_runloop_begin(self, tree):
        # one segment per call of run(): a second call on a finished tree must consult once and do nothing
        self.run_consults = []
        self.steps_at_run_begin = self.ctx.step
        self.cov("run_calls")

    def on_runloop_end(self, tree):
        rc = self.run_consults
        steps = self.ctx.step - getattr(self, "steps_at_run_begin", 0)
        if rc:
            if not rc[-1]:
                self.v("run() returned although the global stop condition was false at the boundary")
            if any(rc[:-1]) and not self.nonmonotone:
                self.v("run() continued past a boundary at which the global stop condition held", verdicts=rc[-6:])
            if len(rc) != steps + 1:
                self.v("run loop consultations != metaepochs + 1", consults=len(rc), steps=steps)
        else:
            self.v("run() returned without consulting the global stop condition")

    def on_run_raised(self, tree, exc):
        # run() performs metaepochs until the stop condition holds; an exception out of the library's own stop-condition code is not that
        tb = self.ctx.aborted[3] if self.ctx.aborted and len(self.ctx.aborted) > 3 else ""
        if "/stop_conditions/" in tb[-900:]:
            self.v(
                f"run() raised from a global stop condition instead of running until it holds: {type(exc).__name__}: {str(exc)[:60]}",
                second_tree_of_a_reuse_pair=self.ctx.prev is not None, gsc=self.ctx.desc.get("gsc"), traceback_tail=tb[-500:],
            )
        else:
            self.cov("runs_that_raised_outside_the_stop_conditions")

    def on_init(self, deme, start, end):
        if self.T is not None and deme.level > 0:
            self._bad("a deme was sprouted after the global stop condition had been observed true", deme=deme.id, T=self.T)

    def on_sprout_phase_begin(self, tree):
        if self.T is not None:
            self._bad("a sprouting round was started after the global stop condition had been observed true", T=self.T)

    def on_run_end(self, tree):
        ctx = self.ctx
        desc = ctx.desc
        self.cov("completed_runs")
        if tree.metaepoch_count - (self.started_count or 0) != ctx.step:
            self.v("metaepoch counter != number of metaepochs performed", counter=tree.metaepoch_count, performed=ctx.step)
        g = desc.get("gsc", {})
        if g.get("k") == "melimit" and tree.metaepoch_count != g["n"]:
            self.v("MetaepochLimit(n): run ended with counter != n", n=g["n"], counter=tree.metaepoch_count)
        if g.get("k") == "dontrun" and tree.metaepoch_count != 0:
            self.v("DontRun: metaepochs were performed", counter=tree.metaepoch_count)
        if ctx.result is not None:
            if ctx.result.nit != ctx.step:
                self.v("minimize(): nit != metaepochs performed", nit=int(ctx.result.nit), performed=ctx.step)
            if desc.get("maxiter") is not None and desc.get("maxfun") is None and ctx.result.nit != desc["maxiter"]:
                self.v("minimize(maxiter=n): nit != n", nit=int(ctx.result.nit), maxiter=desc["maxiter"])
        # evaluations after T bounded by one generation
        if self.T is not None and not self.nonmonotone:
            for d in self.all_demes(tree):
                if d.id not in self.evals_at_T:
                    continue
                extra = ctx.attributed(d.id) - self.evals_at_T[d.id]
                cname = type(d).__name__
                if cname in POP_BOUND_ENGINES and d.history:
                    bound = len(d.history[0])
                    if d.id == self.inflight:
                        bound = 0
                    if extra > bound:
                        self.v(
                            f"more evaluations than one generation after the GSC became true: {cname}",
                            deme=d.id,
                            evaluations_after=extra,
                            one_generation=bound,
                        )


class C06Life(Monitor):
    prop = "C06"

    def __init__(self):
        super().__init__()
        self.known = {}  # id -> created step
        self.inactive = {}  # id -> frozen snapshot
        self.must_run = set()
        self.mc_before = {}
        self.enters = Counter()
        self.was_active = {}
        self.lsc_verdicts = {}
        self.gsc_true_by = set()

    def _sig(self, d):
        hist = d.history
        return (d.n_evaluations, self.ctx.attributed(d.id), len(hist), tuple(gen_digest(g) for g in hist))

    def _hib(self):
        return bool(self.ctx.desc.get("options", {}).get("hibernation"))

    def on_tree_ready(self, tree):
        for d in self.all_demes(tree):
            self.known.setdefault(d.id, 0)

    def on_step_begin(self, tree):
        hib = self._hib()
        self.must_run = set()
        self.mc_before = {}
        self.enters = Counter()
        self.lsc_verdicts = {}
        self.gsc_true_by = set()
        self.active_at_begin = {d.id: bool(d.is_active) for d in self.all_demes(tree)}
        for d in self.all_demes(tree):
            self.known.setdefault(d.id, self.ctx.step - 1)
            self.mc_before[d.id] = d.metaepoch_count
            if d.is_active and not (hib and d._hibernating):
                self.must_run.add(d.id)
        if hib:
            # run order of a metaepoch: deepest level first, newest deme first, root last
            order = [d for lvl in reversed(tree.levels) for d in reversed(lvl) if d.is_active]
            seen_sleeper = False
            for d in order:
                if d._hibernating:
                    seen_sleeper = True
                elif seen_sleeper:
                    self.cov("hibernating_deme_ahead_of_an_awake_one_in_run_order")
                    break

    def on_init(self, deme, start, end):
        lv_ = self.ctx.desc["levels"][deme.level] if deme.level < len(self.ctx.desc.get("levels", [])) else {}
        if lv_.get("engine") == "cma_stds" and self.ctx.tree is not None and deme._sprout_seed is not None:
            try:
                from pyhms.utils.covariance_estimate import get_population

                parent = next(p_ for p_ in self.ctx.tree.levels[deme.level - 1] if any(i is deme._sprout_seed for i in p_.all_individuals))
                if (np.std(get_population(parent, deme._sprout_seed), axis=0) == 0).any():
                    self.collapsed_parent = getattr(self, "collapsed_parent", set()) | {deme.id}
            except StopIteration:
                pass
        if type(deme).__name__ == "LocalDeme" and self.ctx.tree is not None:
            for lvl in self.ctx.tree.levels:
                for p_ in lvl:
                    if p_.id in self.inactive and any(i is deme._sprout_seed for i in p_.all_individuals):
                        self.cov("local_deme_sprouted_from_a_stopped_parent")

    def on_deme_enter(self, deme):
        self.enters[deme.id] += 1
        self.was_active[deme.id] = deme.is_active
        lv = self.ctx.desc["levels"][deme.level] if deme.level < len(self.ctx.desc.get("levels", [])) else {}
        if deme.id in getattr(self, "collapsed_parent", ()):
            self.pending_collapsed = getattr(self, "pending_collapsed", set()) | {deme.id}
        if lv.get("mutation_std_step") and self._hib():
            slept = self.ctx.step - 1 - deme.started_at - deme.metaepoch_count  # metaepochs of the tree in which this deme did not run
            if slept * lv["mutation_std_step"] > (lv["mutation_std"] if isinstance(lv.get("mutation_std"), float) else 1e300):
                self.cov("adaptive_mutation_deme_ran_after_sleeping_longer_than_std_over_step")
        if deme.id in self.inactive:
            self.v(f"a stopped deme ran a metaepoch again: {type(deme).__name__}", deme=deme.id)
        if deme.id not in self.mc_before:
            self.v("a freshly sprouted deme ran in the metaepoch it was created in", deme=deme.id)

    def _ref_lsc(self, d, deme):
        """The documented rule of each shipped local stop condition, recomputed from the deme's public state."""
        k = d["k"]
        if k == "dontstop":
            return False
        if k == "dontrun":
            return True
        if k == "melimit":
            return deme.metaepoch_count >= d["n"]
        if k == "children":
            return bool(deme.children) and all(not c.is_active for c in deme.children)
        if k == "steady":
            n = d["n"]
            if n > deme.metaepoch_count:
                return False
            h = deme._history
            avg = [np.mean([ind.fitness for generation in h[j] for ind in generation]) for j in range(-n, 0)]
            return bool(np.mean(avg) - np.min(avg) <= d["dev"])
        return None  # user-defined: no reference

    def on_lsc(self, deme, verdict):
        self.lsc_verdicts.setdefault(deme.id, []).append(verdict)
        sc = self.ctx.scope
        if not (sc and sc[-1][0] == "me" and sc[-1][1] == deme.id):
            self.cov("lsc_consulted_outside_the_deme_s_own_metaepoch")
        d = self.ctx.desc["levels"][deme.level]["lsc"]
        self.cov(f"lsc_verdict.{d['k']}.{verdict}")
        try:
            want = self._ref_lsc(d, deme)
        except Exception:
            want = None
        if want is not None:
            self.cov("lsc_verdicts_compared_with_documented_rule")
            if bool(want) != bool(verdict):
                self.v(f"local stop condition's verdict differs from its documented rule: {d['k']}", deme=deme.id, verdict=bool(verdict), rule=bool(want), metaepochs=deme.metaepoch_count)

    def on_gsc(self, tree, verdict, kind, deme):
        if verdict and kind == "deme":
            self.gsc_true_by.add(deme.id)
        for d in self.all_demes(tree):
            snap = self.inactive.get(d.id)
            if snap is not None:
                if d.is_active:
                    self.v(f"a stopped deme became active again: {type(d).__name__}", deme=d.id)
                if d.n_evaluations != snap[0] or self.ctx.attributed(d.id) != snap[1]:
                    self.v(f"a stopped deme evaluated the objective again: {type(d).__name__}", deme=d.id, before=snap[:2], now=(d.n_evaluations, self.ctx.attributed(d.id)))

    def on_deme_exit(self, deme, start, end):
        cname = type(deme).__name__
        lsc = self.lsc_verdicts.get(deme.id, [])
        lsc_true = bool(lsc) and lsc[-1]
        gsc_true = deme.id in self.gsc_true_by
        self_term = False
        if cname == "CMADeme":
            try:
                self_term = bool(deme._cma_es.stop())
            except Exception:
                self_term = False
        if cname == "LocalDeme":
            self_term = True
            mi = getattr(deme, "_options", {}).get("maxiter")
            if mi is not None and len(getattr(deme, "_run_history", ())) >= mi:
                # scipy reports one iterate per iteration: the search used up its iteration budget (it did not converge first)
                self.cov("local_search_cut_short_by_its_iteration_limit")
        if self.was_active.get(deme.id) and not deme.is_active:
            causes = [c for c, f in (("lsc", lsc_true), ("gsc", gsc_true), ("engine", self_term)) if f]
            if not causes:
                self.v(f"deme became inactive without any stop cause: {cname}", deme=deme.id, lsc=lsc, gsc_true=gsc_true)
            else:
                c = causes[0] if len(causes) == 1 else "+".join(causes)
                self.cov(f"deactivation.{cname}.{c}")
                for cc in causes:
                    self.cov(f"cause.{cc}")
                self.nt((cname, causes[0]))
        elif self.was_active.get(deme.id) and deme.is_active:
            # the global stop condition as it stands at the end of this deme's metaepoch (evaluated by the monitor
            # through the wrapped condition, outside any context so that no event is recorded)
            holds = None
            tree = self.ctx.tree
            inner = getattr(getattr(tree, "_gsc", None), "inner", None)
            if inner is not None:
                from ..harness import activate

                with activate(None):
                    try:
                        holds = bool(inner(tree))
                    except Exception:
                        holds = None
            if holds is None:
                self.cov("gsc_at_exit_not_observable")
            else:
                self.cov("gsc_at_exit_checked")
                if holds:
                    self.v(f"global stop condition held at the end of the deme's metaepoch but the deme stayed active: {cname}", deme=deme.id, consulted_true=gsc_true)
            if lsc_true:
                self.v(f"local stop condition held at the end of the metaepoch but the deme stayed active: {cname}", deme=deme.id)
            if gsc_true:
                self.v(f"global stop condition held but the deme stayed active: {cname}", deme=deme.id)
            if self_term:
                self.v(f"engine terminated itself but the deme stayed active: {cname}", deme=deme.id)

    def on_step_end(self, tree):
        for did in getattr(self, "pending_collapsed", ()):
            self.cov("cma_deme_with_estimated_widths_ran_after_being_sprouted_from_a_collapsed_parent_population")
        self.pending_collapsed = set()
        for d in self.all_demes(tree):
            cname = type(d).__name__
            if d.id in self.mc_before:
                grew = d.metaepoch_count - self.mc_before[d.id]
                if d.id in self.must_run:
                    self.cov("active_deme_steps")
                    if self.enters[d.id] != 1 or grew != 1:
                        self.v(
                            f"active deme did not advance by exactly one metaepoch: {cname}",
                            deme=d.id,
                            ran=self.enters[d.id],
                            metaepoch_count_growth=grew,
                        )
                else:
                    if self.enters[d.id] != 0 or grew != 0:
                        self.v(f"inactive or hibernating deme advanced: {cname}", deme=d.id, ran=self.enters[d.id], growth=grew)
            else:
                self.cov("fresh_demes")
                if self.enters[d.id] != 0 or d.metaepoch_count != 0:
                    self.v("a freshly sprouted deme ran in the metaepoch it was created in", deme=d.id)
            # frozen after inactivation
            if not d.is_active:
                snap = self.inactive.get(d.id)
                if snap is None and d.id in self.mc_before and self.enters[d.id] == 0 and self.active_at_begin.get(d.id):
                    self.v(f"a deme became inactive in a metaepoch in which it did not run: {cname}", deme=d.id, hibernating=bool(d._hibernating))
                if snap is None:
                    self.inactive[d.id] = self._sig(d) + (self.ctx.step,)
                else:
                    now = self._sig(d)
                    self.cov("stopped_deme_rechecks")
                    if self.ctx.desc.get("shared") and any(c.is_active and len(c.current_population) == 1 and self.enters[c.id] for c in d.children):
                        self.cov("stopped_parent_rechecked_while_its_one_individual_child_on_the_same_problem_object_ran")
                    if self.ctx.step - snap[4] >= 3:
                        self.cov("stopped_deme_observed_3_later_metaepochs")
                    if now[0] != snap[0] or now[1] != snap[1]:
                        self.v(f"a stopped deme evaluated the objective again: {cname}", deme=d.id)
                    if now[2] != snap[2] or now[3] != snap[3]:
                        self.v(f"history of a stopped deme changed: {cname}", deme=d.id, generations_before=snap[2], generations_now=now[2])
            elif d.id in self.inactive:
                self.v(f"a stopped deme became active again: {cname}", deme=d.id)

    def on_run_end(self, tree):
        self.on_gsc(tree, False, "end", None)

    def on_run_raised(self, tree, exc):
        # a metaepoch that dies with an exception raised by the library itself leaves the demes that were due to advance where they are
        # (the generator only produces configurations within the documented preconditions of every component)
        if tree is None or self.ctx.step < 1 or not self.ctx.in_step:
            self.cov("exceptions_outside_a_metaepoch")
            return
        due = [d for d in self.must_run if self.enters.get(d, 0) == 0]
        tb = self.ctx.aborted[3] if self.ctx.aborted and len(self.ctx.aborted) > 3 else ""
        where = "pyhms" if "/pyhms/" in tb.split("\n")[-3:][0] + tb[-600:] else "elsewhere"
        self.v(
            f"a metaepoch ended with an exception instead of advancing the active demes: {type(exc).__name__}: {str(exc)[:60]}",
            step=self.ctx.step,
            demes_that_had_not_run_yet=due[:5],
            raised_in=where,
            traceback_tail=tb[-700:],
        )


class C07Structure(Monitor):
    prop = "C07"

    def __init__(self):
        super().__init__()
        self.snap = {}
        self.pending = []
        self.round_children = 0
        self.started = {}
        self.sleeping = {}

    def _check_structure(self, tree, where):
        ctx = self.ctx
        desc = ctx.desc
        self.cov("structure_checks")
        levels = tree.levels
        if len(levels) != len(desc["levels"]):
            self.v("number of levels != configured height", have=len(levels), configured=len(desc["levels"]))
        if len(levels[0]) != 1:
            self.v("level 0 does not hold exactly one deme", n=len(levels[0]))
            return
        root = levels[0][0]
        if root.id != "root":
            self.v("root deme id is not 'root'", id=root.id)
        ids = [d.id for lvl in levels for d in lvl]
        if len(set(ids)) != len(ids):
            dup = [i for i, c in Counter(ids).items() if c > 1]
            self.v("duplicate deme id", ids=dup[:5])
        parents = {}
        objs = {id(d): d for lvl in levels for d in lvl}
        for li, lvl in enumerate(levels):
            for d in lvl:
                for ch in d.children:
                    parents.setdefault(id(ch), []).append(d)
                    if id(ch) not in objs:
                        self.v("a child deme is not listed in tree.levels", parent=d.id, child=ch.id)
        shape = []
        for li, lvl in enumerate(levels):
            eng = desc["levels"][li]["engine"] if li < len(desc["levels"]) else None
            for d in lvl:
                if d.level != li:
                    self.v("deme.level != index of the level holding it", deme=d.id, level=d.level, held_in=li)
                want_cls = ENGINE_CLASS[eng] if eng is not None else None
                if desc.get("override_builtin_ea") and want_cls == "EADeme":
                    want_cls = "OverridingEADeme"  # the user registered a deme class of their own for the built-in EALevelConfig
                    self.cov("deme_of_a_level_whose_built_in_config_class_is_mapped_to_a_user_deme_class")
                if eng is not None and type(d).__name__ != want_cls:
                    self.v("deme is not of the engine configured for its level" + (" (user deme class registered for a built-in config class)" if desc.get("override_builtin_ea") else ""), deme=d.id, have=type(d).__name__, configured=want_cls)
                if eng in ("custom", "custom_ea", "custom_ea2"):
                    self.cov("custom_deme_class_seen")
                    self.cov(f"custom_deme_class_seen.{eng}")
                ps = parents.get(id(d), [])
                if li == 0:
                    if ps:
                        self.v("root deme has a parent", parent=ps[0].id)
                    if d.started_at != 0:
                        self.v("root started_at != 0", started_at=d.started_at, metaepoch=tree.metaepoch_count)
                else:
                    if len(ps) != 1:
                        self.v("non-root deme does not have exactly one parent", deme=d.id, parents=[p.id for p in ps])
                    else:
                        p = ps[0]
                        if p.level != li - 1 or not any(p is x for x in levels[li - 1]):
                            self.v("parent is not exactly one level above", deme=d.id, parent=p.id, parent_level=p.level)
                        if not (p.started_at <= d.started_at):
                            self.v("deme started before its parent", deme=d.id, started_at=d.started_at, parent_started_at=p.started_at)
                        shape.append((li, p.id, eng))
                    first = self.started.setdefault(d.id, d.started_at)
                    if first != d.started_at:
                        self.v("started_at of a deme changed after its creation", deme=d.id, at_creation=first, now=d.started_at)
                    if not (0 <= d.started_at <= tree.metaepoch_count):
                        self.v("started_at outside [0, current metaepoch]", deme=d.id, started_at=d.started_at, metaepoch=tree.metaepoch_count)
                    if d._sprout_seed is None:
                        self.v("non-root deme without sprout seed", deme=d.id)
        self.nt(tuple(sorted(shape)))
        if len(ids) >= 12:
            self.cov("tree_with_12_or_more_demes")
        if len(levels) >= 3:
            sprouted_l1 = sum(1 for d in levels[1] if d.children)
            if sprouted_l1 >= 2:
                self.cov("three_level_tree_two_sprouting_parents")

    def on_tree_ready(self, tree):
        self._check_structure(tree, "start")

    def on_step_end(self, tree):
        self._check_structure(tree, "boundary")
        # coverage: a deme with adaptive mutation (its step depends on the deme's own clock) going through a sleep-wake cycle
        for d in self.all_demes(tree):
            was = self.sleeping.get(d.id, False)
            now = bool(d._hibernating)
            if was and not now and d.is_active and self.engine_of(d) == "sea_adapt":
                self.cov("adaptive_mutation_deme_woke_up")
            self.sleeping[d.id] = now

    def on_run_end(self, tree):
        self._check_structure(tree, "end")

    def on_sprout_begin(self, tree):
        self.snap = {}
        for d in self.all_demes(tree):
            cur = list(d.current_population)
            self.snap[d.id] = (cur, {id(i) for i in cur}, {ind_key(i) for i in cur}, d.is_active, d)

    def on_generator(self, g, out, tree):
        # coverage: candidates of *different* parents of one level with exactly the same fitness (plateau objectives)
        by_level = {}
        for d, c in out.items():
            for ind in c.individuals:
                by_level.setdefault(d.level, []).append((float(ind.fitness), d.id))
        for lvl, items in by_level.items():
            seen = {}
            for f, did in items:
                if f in seen and seen[f] != did:
                    self.cov("round_with_tied_candidates_from_different_parents")
                    return
                seen.setdefault(f, did)

    def on_filter(self, f, before, after, tree):
        # coverage: LevelLimit had to cut on a level and, among what it kept there, candidates of different parents tie exactly
        if type(f).__name__ != "LevelLimit":
            return
        levels = {d.level for d in before}
        for lvl in levels:
            nb = sum(len(inds) for d, inds in before.items() if d.level == lvl)
            kept = [(float(i.fitness), d.id) for d, c in after.items() if d.level == lvl for i in c.individuals]
            if len(kept) >= 2 and nb > len(kept):
                seen = {}
                for fv, did in kept:
                    if fv in seen and seen[fv] != did:
                        self.cov("level_limit_cut_and_kept_tied_candidates_of_different_parents")
                        return
                    seen.setdefault(fv, did)

    def on_sprout_seeds(self, tree, seeds):
        self.pending = []
        gen_kind = self.ctx.desc["sprout"].get("gen", {}).get("k")
        for parent, cand in seeds.items():
            s = self.snap.get(parent.id)
            if s is None or s[4] is not parent:
                self.v("seeds returned for a deme that is not in the tree", parent=getattr(parent, "id", "?"))
                continue
            if parent.level >= len(tree.levels) - 1:
                self.v("seeds returned for a leaf deme", parent=parent.id)
            for ind in cand.individuals:
                self.cov("seeds_checked")
                ok = id(ind) in s[1] or ind_key(ind) in s[2]
                if not ok and gen_kind == "nbclocal" and not s[3]:
                    hk = {ind_key(i) for i in parent.all_individuals}
                    if ind_key(ind) in hk:
                        ok = True
                        self.cov("seed_from_history_of_finished_parent")
                if not ok:
                    self.v(
                        "sprout seed is not an individual of the parent's population at the moment of sprouting",
                        parent=parent.id,
                        seed=hexf(ind.genome),
                        fitness=float(ind.fitness),
                    )
                self.pending.append((parent, ind))
        self.round_children = 0
        if len(self.pending) >= 2:
            self.cov("round_creating_2_children")

    def on_init(self, deme, start, end):
        if deme.level == 0:
            return
        self.round_children += 1
        hit = None
        for k, (parent, ind) in enumerate(self.pending):
            if deme._sprout_seed is ind:
                hit = k
                break
        if hit is None:
            self.v("a child deme was created whose seed is not one of the seeds returned by the sprout mechanism", deme=deme.id)
            return
        parent, ind = self.pending.pop(hit)
        if deme.level != parent.level + 1:
            self.v("child not created one level below its parent", deme=deme.id, parent=parent.id)
        cname = type(deme).__name__
        if cname in ("EADeme", "DEDeme", "SHADEDeme", "TaggedEADeme", "TaggedEADeme2"):
            first = deme.history[0]
            sk = canon(ind.genome).tobytes()
            self.cov("pop_children_checked")
            if not any(canon(i.genome).tobytes() == sk for i in first):
                self.v(f"initial population of a sprouted deme does not contain its seed: {cname}", deme=deme.id)
        if deme.started_at != self.ctx.tree.metaepoch_count:
            self.v("started_at of a new deme != current metaepoch", deme=deme.id, started_at=deme.started_at, metaepoch=self.ctx.tree.metaepoch_count)

    def on_sprout_end(self, tree, seeds):
        if self.pending:
            self.v("fewer children created than seeds returned", missing=len(self.pending))
        for parent, cand in (seeds or {}).items():
            pass
        self.pending = []


class C08LevelLimit(Monitor):
    prop = "C08"

    def __init__(self):
        super().__init__()
        self.before = None
        self.n_before = None
        self.freed = False
        self.was_full = set()

    def _limit(self):
        s = self.ctx.desc["sprout"]
        if s["k"] in ("simple", "nbc"):
            return s["ll"]
        for f in s["tfilters"]:
            if f["k"] == "levellimit":
                return f["n"]
        return None

    def _census(self, tree):
        return [sum(1 for d in lvl if d.is_active) for lvl in tree.levels]

    def _check(self, tree, where):
        L = self._limit()
        if L is None:
            return
        c = self._census(tree)
        self.cov("censuses")
        for li in range(1, len(c)):
            if c[li] > L:
                self.v("more simultaneously active demes on a level than the level limit", level=li, active=c[li], limit=L, where=where)
            if c[li] == L:
                self.cov("level_full_seen")
                if any(d.is_active and d._hibernating for d in tree.levels[li]):
                    self.cov("level_full_with_a_hibernating_deme")
                self.was_full.add(li)
            elif li in self.was_full and c[li] < L:
                self.cov("slot_freed_after_full")

    def on_gsc(self, tree, verdict, kind, deme):
        self._check(tree, "gsc:" + kind)

    def on_step_begin(self, tree):
        self._check(tree, "step_begin")

    def on_step_end(self, tree):
        self._check(tree, "step_end")

    def on_sprout_begin(self, tree):
        self.before = self._census(tree)
        self.n_before = [len(lvl) for lvl in tree.levels]

    def on_generator(self, gen, out, tree):
        # candidates offered per target level vs free slots (coverage of "had to cut")
        L = self._limit()
        if L is None or self.before is None:
            return
        per = Counter()
        parents = Counter()
        for deme, cand in out.items():
            per[deme.level + 1] += len(cand.individuals)
            parents[deme.level + 1] += 1
        for lvl, n in per.items():
            if lvl < len(self.before) and n > L - self.before[lvl]:
                self.cov("rounds_with_more_candidates_than_free_slots")
                if parents[lvl] >= 2:
                    self.cov("rounds_cut_with_2_parents")
                self.nt((tuple(self.before), L, min(n, 6)))

    def on_filter(self, f, before, after, tree):
        if type(f).__name__ != "LevelLimit":
            return
        seq = [d.level for d, inds in before.items() if inds]
        runs = [x for i_, x in enumerate(seq) if i_ == 0 or seq[i_ - 1] != x]
        if len(runs) != len(set(runs)):
            self.cov("level_limit_handed_candidates_whose_parents_of_one_level_are_not_adjacent")

    def on_sprout_end(self, tree, seeds):
        L = self._limit()
        if L is None or self.before is None:
            return
        self.cov("rounds")
        for li in range(1, len(tree.levels)):
            created = len(tree.levels[li]) - self.n_before[li]
            free = L - self.before[li]
            if created > max(free, 0):
                self.v("a sprouting round created more demes on a level than the free slots", level=li, created=created, free=free, limit=L, active_before=self.before[li])
            if created and self.before[li] < L and li in self.was_full:
                self.cov("slot_refilled")
        self._check(tree, "after_sprout")
        self.before = None


class C09Distance(Monitor):
    prop = "C09"

    def __init__(self):
        super().__init__()
        self.true_c = {}
        self.birth_c = {}
        self.active_at = {}

    def _centroids(self, tree, where):
        for d in self.all_demes(tree):
            if not d.history or not d.current_population:
                continue
            tc = true_centroid(d)
            rc = peek_centroid(d)
            self.cov("centroid_checks")
            if d.id not in self.birth_c:
                self.birth_c[d.id] = tc
            if rc is None or np.shape(rc) != np.shape(tc) or not np.allclose(rc, tc, rtol=1e-12, atol=0.0):
                self.v(
                    f"reported centroid != mean of the current population: {type(d).__name__}",
                    deme=d.id,
                    reported=None if rc is None else np.asarray(rc).tolist(),
                    true=tc.tolist(),
                    where=where,
                    metaepochs=d.metaepoch_count,
                )

    def on_tree_ready(self, tree):
        self._centroids(tree, "start")

    def on_step_end(self, tree):
        self._centroids(tree, "boundary")

    def on_run_end(self, tree):
        self._centroids(tree, "end")

    def on_sprout_begin(self, tree):
        self._centroids(tree, "before sprouting round")
        self.true_c = {}
        self.active_at = {}
        for d in self.all_demes(tree):
            if d.history and d.current_population:
                self.true_c[d.id] = (d.level, true_centroid(d), type(d).__name__)
                self.active_at[d.id] = d.is_active

    def _filters(self):
        s = self.ctx.desc["sprout"]
        if s["k"] == "simple":
            return [("far", s["far"], 2, True)]
        if s["k"] == "nbc":
            return [("nbcfar", s["fdf"], 2, False)]
        out = []
        for f in s["dfilters"]:
            if f["k"] == "userpure":
                continue
            o = np.inf if f.get("ord") == "inf" else f.get("ord")
            if f["k"] == "far":
                out.append(("far", f["d"], o, True))
            elif f["k"] == "nbcfar":
                out.append(("nbcfar", f["f"], o, f["active"]))
        return out

    def on_sprout_seeds(self, tree, seeds):
        flt = self._filters()
        for parent, cand in seeds.items():
            tl = parent.level + 1
            for kind, par, o, only_active in flt:
                if kind == "far":
                    thr = par
                else:
                    md = cand.features.nbc_mean_distance
                    if md is None or not np.isfinite(md):
                        self.cov("nbc_mean_distance_not_finite")
                        # read literally: nothing is strictly farther than an undefined threshold, so with a considered deme
                        # on the target level no seed may be accepted
                        considered = [sid for sid, (lvl, c, cname) in self.true_c.items() if lvl == tl and (self.active_at[sid] or not only_active)]
                        if considered and cand.individuals:
                            self.v("seed accepted by NBC_FarEnough although the threshold (factor x mean nearest-better distance) is undefined (NaN)", parent=parent.id, considered=considered[:4], n_seeds=len(cand.individuals))
                        continue
                    thr = par * md
                for sid, (lvl, c, cname) in self.true_c.items():
                    if lvl != tl:
                        continue
                    if only_active and not self.active_at[sid]:
                        continue
                    moved = float(np.linalg.norm(c - self.birth_c.get(sid, c)))
                    for ind in cand.individuals:
                        dist = float(np.linalg.norm(canon(ind.genome) - c, ord=o))
                        self.cov("seed_sibling_distance_checks")
                        self.cov(f"accepted.{kind}")
                        m = moved > thr
                        self.nt((cname, kind, m))
                        if m:
                            self.cov(f"sibling_moved_more_than_threshold.{cname}")
                        if dist <= thr * (1 - 1e-9):
                            self.v(
                                f"accepted sprout lies within the threshold of an existing deme's current centroid: sibling {cname}",
                                parent=parent.id,
                                sibling=sid,
                                filter=kind,
                                distance=dist,
                                threshold=thr,
                                seed=canon(ind.genome).tolist(),
                                centroid=c.tolist(),
                                sibling_moved_since_birth=moved,
                            )

    def on_filter(self, flt, before, out, tree):
        name = type(flt).__name__
        if name in ("FarEnough", "NBC_FarEnough"):
            if name == "NBC_FarEnough" and self.ctx.prev is not None and any(not d_.is_active for lvl_ in tree.levels[1:] for d_ in lvl_):
                self.cov("second_tree_of_a_reuse_pair_filtered_against_finished_demes")
            o = getattr(flt, "norm_ord", 2)
            if o != 2:
                for parent, inds in before.items():
                    sibs = [c for sid, (lvl, c, cname) in self.true_c.items() if lvl == parent.level + 1]
                    if len(sibs) >= 2:
                        for ind in inds:
                            x = canon(ind.genome)
                            d2 = [float(np.linalg.norm(x - c)) for c in sibs]
                            do = [float(np.linalg.norm(x - c, ord=o)) for c in sibs]
                            if int(np.argmin(d2)) != int(np.argmin(do)):
                                self.cov("candidates_whose_nearest_sibling_depends_on_the_norm")
                                thr_ = getattr(flt, "min_distance", None)
                                if thr_ is not None and min(do) <= thr_ < do[int(np.argmin(d2))]:
                                    # too close to a sibling that is not the Euclidean-nearest one, while the Euclidean-nearest one is far enough
                                    self.cov("candidates_rejected_only_because_of_a_sibling_that_is_not_the_euclidean_nearest")
            nb = sum(len(v) for v in before.values())
            na = sum(len(c.individuals) for c in out.values())
            if na < nb:
                self.cov(f"rejected.{name}", nb - na)
