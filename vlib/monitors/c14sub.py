"""Fresh-interpreter half of the C14 twin: reads a descriptor on stdin, prints the public snapshot as JSON."""
import json
import os
import sys


def main():
    desc = json.loads(sys.stdin.read())
    from .c14 import snapshot_of

    # scramble the global generators from OS entropy: a seeded run must not depend on them
    seed = int.from_bytes(os.urandom(4), "little") % (2**31 - 1)
    _, snap = snapshot_of(desc, seed)
    sys.stdout.write("\n" + json.dumps(snap) + "\n")


if __name__ == "__main__":
    main()
