"""Run-based monitors C01 (box), C02 (true fitness / immutable history), C03 (accounting), C04 (best)."""
from collections import Counter

import numpy as np

from ..harness import canon, gen_digest
from .base import Monitor, hexf, ind_key


class C01Box(Monitor):
    prop = "C01"

    def __init__(self):
        super().__init__()
        self.checked_to = 0
        self.gens_seen = {}

    def _check_range(self, start, end, where):
        log = self.ctx.log
        if end <= start:
            return
        d = len(self.ctx.lo)
        arr = np.frombuffer(b"".join(e[1] for e in log[start:end]), dtype=np.float64).reshape(-1, d)
        ok = (arr >= self.ctx.lo) & (arr <= self.ctx.hi)
        self.cov("evals_checked", end - start)
        rng = self.ctx.hi - self.ctx.lo
        near = ((arr - self.ctx.lo) <= 0.01 * rng) | ((self.ctx.hi - arr) <= 0.01 * rng)
        nn = int(near.any(axis=1).sum())
        if nn:
            self.cov("evals_near_face", nn)
            self.cov(f"near_face.{where}", nn)
        onf = int(((arr == self.ctx.lo) | (arr == self.ctx.hi)).any(axis=1).sum())
        if onf:
            self.cov(f"on_face.{where}", onf)
            if self.ctx.desc.get("box", {}).get("cls") == "overshoot" and where.startswith("EADeme") and any(lv.get("engine") == "ga" for lv in self.ctx.desc.get("levels", [])[1:]):
                self.cov("ga_style_deme_evaluations_with_a_coordinate_exactly_on_a_face_of_a_decimal_box", onf)
        if self.ctx.desc.get("box", {}).get("cls") == "nano" and where.startswith("LocalDeme"):
            self.cov("local_search_evaluations_in_a_box_narrower_than_a_derivative_step", end - start)
        if self.ctx.desc.get("use_cache") and self.ctx.desc.get("box", {}).get("cls") == "fullprec":
            hair = int(((np.abs(arr - self.ctx.lo) <= 1e-12) | (np.abs(self.ctx.hi - arr) <= 1e-12)).any(axis=1).sum())
            if hair:
                self.cov(f"within_1e-12_of_a_face_with_result_cache.{where}", hair)
        if not ok.all():
            bad = np.argwhere(~ok)
            i, j = bad[0]
            self.v(
                f"objective evaluated outside the box: {where}",
                eval_index=start + int(i),
                coord=int(j),
                x=hexf(arr[i]),
                x_dec=arr[i].tolist(),
                lower=float(self.ctx.lo[j]),
                upper=float(self.ctx.hi[j]),
                n_bad=int((~ok).any(axis=1).sum()),
            )

    def on_init(self, deme, start, end):
        self._check_range(start, end, f"{type(deme).__name__} init")
        self.checked_to = max(self.checked_to, end)
        if deme._sprout_seed is not None and not self.ctx.in_box(deme._sprout_seed.genome):
            self.v("sprout seed outside the box", deme=deme.id, x=hexf(deme._sprout_seed.genome))
        if deme._sprout_seed is not None and self.ctx.desc.get("box", {}).get("cls") == "needle" and type(deme).__name__ in ("EADeme", "DEDeme", "SHADEDeme"):
            self.cov("individuals_sampled_around_a_seed_with_a_width_500_times_a_side_of_the_box", max(0, end - start - 1))
        if deme._sprout_seed is not None and type(deme).__name__ == "LocalDeme":
            f_ = deme._sprout_seed.fitness
            if f_ is not None and f_ == f_ and abs(f_) == float("inf"):
                self.cov("local_deme_sprouted_from_a_seed_with_infinite_fitness")

    def on_deme_exit(self, deme, start, end):
        self._check_range(start, end, f"{type(deme).__name__} metaepoch")
        self.checked_to = max(self.checked_to, end)

    def _scan_histories(self, tree):
        for d in self.all_demes(tree):
            hist = d.history
            seen = self.gens_seen.get(d.id, 0)
            for gi in range(seen, len(hist)):
                for ind in hist[gi]:
                    self.cov("stored_genomes_checked")
                    if not self.ctx.in_box(ind.genome):
                        self.v(
                            f"stored genome outside the box: {type(d).__name__}",
                            deme=d.id,
                            generation=gi,
                            x=hexf(ind.genome),
                            x_dec=canon(ind.genome).tolist(),
                        )
            self.gens_seen[d.id] = len(hist)

    def on_step_end(self, tree):
        self._scan_histories(tree)

    def on_tree_ready(self, tree):
        self._scan_histories(tree)

    def _final(self, tree):
        # anything not covered by a scope (should be nothing) is still checked
        log = self.ctx.log
        if self.ctx.unscoped() > 0:
            self._check_range(0, len(log), "whole log (unscoped evaluations present)")
        if tree is not None:
            self._scan_histories(tree)
            for d in self.all_demes(tree):
                if type(d).__name__ == "CMADeme" and not d.is_active:
                    try:
                        own = bool(d._cma_es.stop())
                        out = not self.ctx.in_box(d._cma_es.mean)
                    except Exception:
                        continue
                    if own:
                        self.cov("cma_deme_ended_by_cma_es_own_stop")
                        if out:
                            self.cov("cma_deme_ended_by_cma_es_own_stop_with_the_distribution_mean_outside_the_box")
        res = self.ctx.result
        if res is not None:
            self.cov("minimize_x_checked")
            if not self.ctx.in_box(res.x):
                self.v("minimize().x outside the box", x=hexf(res.x))
        if self.ctx.cov["C01.evals_near_face"]:
            from ..gen import engine_mix

            self.nt((engine_mix(self.ctx.desc), self.ctx.desc["box"]["cls"], self.ctx.desc["obj"]["fam"]))

    def on_run_end(self, tree):
        self._final(tree)

    def on_run_aborted(self, tree):
        self._final(tree)


class C02Truth(Monitor):
    prop = "C02"

    def __init__(self):
        super().__init__()
        self.digests = {}  # (deme id, gen index) -> digest
        self.logset_upto = 0
        self.logset = set()

    def _sentinel_ok(self, deme, fit):
        # individuals travel between levels as sprout seeds, so a saturated cutoff anywhere legitimises it
        n = max(1, len(self.ctx.stacks))
        return fit == self.worst_sentinel() and any(self.cutoff_saturated(l) for l in range(n))

    def _check_ind(self, deme, ind, where):
        fit = ind.fitness
        if fit is None or (isinstance(fit, float) and np.isnan(fit)):
            self.v(f"stored individual without fitness: {where}", deme=deme.id, x=hexf(ind.genome))
            return
        t = self.ctx.truth(ind.genome, deme.level)
        if self.ctx.desc.get("level_shift"):
            self.cov("individuals_reevaluated_with_their_own_level_s_objective")
        if np.isinf(fit) and fit != t:
            self.cov("sentinel_seen")
            if not self._sentinel_ok(deme, fit):
                self.v(f"infinite fitness stored although no cutoff wrapper is exhausted: {where}", deme=deme.id, fitness=str(fit))
            return
        if np.isinf(fit):
            self.cov("genuinely_infinite_objective_values_stored")
        self.cov("individuals_reevaluated")
        if t != fit:
            self.v(
                f"stored fitness differs from f(genome): {where}",
                deme=deme.id,
                x=hexf(ind.genome),
                stored=float(fit).hex(),
                true=float(t).hex(),
                stored_dec=float(fit),
                true_dec=float(t),
            )
        elif (canon(ind.genome).tobytes(), float(fit)) not in self.logset:
            self.cov("stored_pair_not_in_call_log")

    def _refresh_logset(self):
        log = self.ctx.log
        for e in log[self.logset_upto :]:
            self.logset.add((e[1], e[2]))
        self.logset_upto = len(log)

    def _scan(self, tree):
        self._refresh_logset()
        for d in self.all_demes(tree):
            cname = type(d).__name__
            hist = d.history
            for gi, gen in enumerate(hist):
                key = (d.id, gi)
                dg = gen_digest(gen)
                old = self.digests.get(key)
                if old is None:
                    self.digests[key] = dg
                    for ind in gen:
                        self._check_ind(d, ind, f"{cname} history")
                    if cname == "LocalDeme" and gi >= 1:
                        self.cov("local_iterates", len(gen))
                        if len(gen) >= 3:
                            self.cov("local_deme_with_3_iterates")
                else:
                    self.cov("generation_digests_reverified")
                    if old != dg:
                        self.v(f"recorded generation changed later: {cname}", deme=d.id, generation=gi, n=len(gen))
                        self.digests[key] = dg
            b = d.best_individual
            if b is not None:
                self._check_ind(d, b, f"{cname} best_individual")
        tb = tree.best_individual
        owner = lambda ind_: next((d_ for d_ in self.all_demes(tree) if any(i_ is ind_ for i_ in d_.all_individuals)), tree.root)  # noqa: E731
        self._check_ind(owner(tb), tb, "tree best_individual")
        if tree.leaves:
            bl = tree.best_leaf_individual
            self._check_ind(owner(bl), bl, "tree best_leaf_individual")
            for ind in tree.r5s_solutions:
                self._check_ind(owner(ind), ind, "tree r5s_solutions")
        for d in self.all_demes(tree):
            bc = d.best_current_individual
            if bc is not None:
                self._check_ind(d, bc, f"{type(d).__name__} best_current_individual")

    def on_tree_ready(self, tree):
        for lv_ in self.ctx.desc.get("levels", []):
            if lv_.get("engine") in ("sea_cx", "ga") and lv_.get("p_mutation") == 0.0:
                self.cov("crossover_without_mutation_levels")
        self._scan(tree)

    def on_step_end(self, tree):
        self._scan(tree)

    def on_sprout_seeds(self, tree, seeds):
        self._refresh_logset()
        for parent, cand in seeds.items():
            for ind in cand.individuals:
                self.cov("seeds_checked")
                self._check_ind(parent, ind, "sprout seed")

    def on_engine_out(self, kind, engine, parents, out):
        # carried-over (unevaluated) vs newly evaluated individuals inside one generation
        pk = {ind_key(p) for p in parents}
        carried = sum(1 for o in out if ind_key(o) in pk)
        if 0 < carried < len(out):
            self.cov("generations_with_carried_and_new")
            self.nt((kind, type(engine).__name__, tuple(type(o).__name__ for o in getattr(engine, "variational_operators_pipeline", []))))

    def _final(self, tree):
        if tree is not None:
            self._scan(tree)
        if self.ctx.desc.get("obj", {}).get("fam") in ("intpen", "intval", "f32"):
            kinds = Counter(type(e[2]).__name__ for e in self.ctx.log)
            for k_, n_ in kinds.items():
                self.cov(f"objective_returned_a_value_of_type.{k_}", n_)
            if len(kinds) >= 2:
                self.cov("runs_on_an_objective_with_mixed_return_types")
        res = self.ctx.result
        if res is not None:
            self.cov("minimize_result_checked")
            if np.isfinite(res.fun):
                t = self.ctx.truth(res.x)
                if t != res.fun:
                    self.v("minimize(): fun != f(x)", x=hexf(res.x), fun=float(res.fun), true=float(t))

    def on_run_end(self, tree):
        self._final(tree)

    def on_run_aborted(self, tree):
        self._final(tree)


class C03Counts(Monitor):
    prop = "C03"

    def _check(self, tree, where, caller=None):
        ctx = self.ctx
        demes = self.all_demes(tree)
        total = tree.n_evaluations
        s = sum(d.n_evaluations for d in demes)
        self.cov("consultations_checked")
        if total != s:
            self.v("tree total != sum over demes", where=where, total=total, sum=s)
        nonzero = 0
        per_level_rep = {}
        any_sat = False
        for d in demes:
            rep = d.n_evaluations
            inv = ctx.attributed(d.id)
            nonzero += rep > 0
            per_level_rep[d.level] = per_level_rep.get(d.level, 0) + rep
            sat = self.cutoff_saturated(d.level)
            any_sat = any_sat or sat
            if not sat:
                if rep != inv:
                    self.v(
                        f"deme evaluation count != objective invocations: {type(d).__name__}",
                        where=where,
                        deme=d.id,
                        reported=rep,
                        invoked=inv,
                    )
            else:
                self.cov("checks_after_cutoff_started")
                if rep < inv:
                    self.v(f"deme reports fewer evaluations than invoked (cutoff active): {type(d).__name__}", deme=d.id, reported=rep, invoked=inv)
        if not any_sat:
            n_log = len(ctx.log) - ctx.log_base
            if total != n_log:
                self.v("tree total != number of objective invocations", where=where, total=total, invoked=n_log, unscoped=ctx.unscoped())
            if not ctx.desc.get("shared"):
                self._update_tags()
                for lvl, rep in per_level_rep.items():
                    if rep != self._tags.get(lvl, 0):
                        self.v("level total != objective invocations on that level", where=where, level=lvl, reported=rep, invoked=self._tags.get(lvl, 0))
        if ctx.unscoped() != 0:
            self.v("objective invoked outside any deme's construction or metaepoch", where=where, n=ctx.unscoped())
        self._cutoff_hard()
        if nonzero >= 2:
            self.multi += 1
        if caller is not None and where == "deme":
            self.cov(f"inside_metaepoch.{type(caller).__name__}")

    def __init__(self):
        super().__init__()
        self._tags = {}
        self._tag_upto = None
        self.multi = 0

    def _update_tags(self):
        ctx = self.ctx
        if self._tag_upto is None:
            self._tag_upto = ctx.log_base
        for e in ctx.log[self._tag_upto :]:
            self._tags[e[0]] = self._tags.get(e[0], 0) + 1
        self._tag_upto = len(ctx.log)

    def _cutoff_hard(self):
        from pyhms.core.problem import EvalCutoffProblem

        ctx = self.ctx
        self._update_tags()
        seen = set()
        for li, objs in enumerate(ctx.stacks):
            for o in objs:
                if isinstance(o, EvalCutoffProblem) and id(o) not in seen:
                    seen.add(id(o))
                    tag = -1 if ctx.desc.get("shared") else li
                    through = self._tags.get(tag, 0)
                    if True:
                        self.cov("cutoff_budget_checks")
                        if through > o._eval_cutoff:
                            self.v("objective invoked more often than the cutoff allows", cutoff=o._eval_cutoff, invoked=through)
                        if o._n_evals >= o._eval_cutoff:
                            self.cov("cutoff_exhausted_seen")

    def _need_recount(self, o):
        # recount only when the log grew since the last look at this wrapper (keeps the check linear)
        last = getattr(self, "_last_len", {})
        n = len(self.ctx.log)
        if last.get(id(o)) == n:
            return False
        last[id(o)] = n
        self._last_len = last
        return True

    def on_gsc(self, tree, verdict, kind, deme):
        self._check(tree, kind, deme)

    def on_lsc(self, deme, verdict):
        # local stop conditions are stop conditions too: same conservation law whenever one is consulted
        if self.ctx.tree is not None and not self.ctx.scope[:-1]:
            self.cov("lsc_consultations_checked")
            self._check(self.ctx.tree, "lsc")

    def _final(self, tree):
        ctx = self.ctx
        if tree is not None:
            self._check(tree, "end")
        res = ctx.result
        if res is not None:
            self.cov("minimize_nfev_checked")
            rep = len(ctx.log) - len({e[1] for e in ctx.log})
            if rep:
                self.cov("minimize_calls_at_a_repeated_point", rep)
            if rep >= 5:
                self.cov("minimize_runs_with_5_or_more_repeated_points")
            if res.nfev != len(ctx.log):
                self.v("minimize(): nfev != number of calls of fun", nfev=int(res.nfev), calls=len(ctx.log), maxfun=ctx.desc.get("maxfun"))
            mf = ctx.desc.get("maxfun")
            if mf is not None and len(ctx.log) > mf:
                self.v("minimize(maxfun=N) invoked fun more than N times", maxfun=mf, calls=len(ctx.log))
            if mf is not None and len(ctx.log) == mf:
                self.cov("minimize_budget_exhausted")
                if ctx.desc.get("maxiter") is not None:
                    self.cov("minimize_with_both_limits_whose_maxiter_metaepochs_would_cost_more_than_maxfun")
        if tree is not None:
            for d in self.all_demes(tree):
                if type(d).__name__ == "LocalDeme" and d.metaepoch_count >= 1 and len(d.history[-1]) == 0:
                    self.cov("local_deme_without_any_iteration")
        if self.multi >= 10:
            from ..gen import engine_mix

            self.nt((engine_mix(ctx.desc), tuple(tuple(lv["stack"]) for lv in ctx.desc.get("levels", []))))

    def on_run_end(self, tree):
        self._final(tree)

    def on_run_aborted(self, tree):
        self._final(tree)


class C04Best(Monitor):
    prop = "C04"

    def __init__(self):
        super().__init__()
        self.prev_tree_best = None
        self.prev_deme_best = {}
        self.improved = 0

    def on_gsc(self, tree, verdict, kind, deme):
        # what a user-defined stop condition of the kind "target reached or budget spent" does: it looks at the best so far every time
        # it is consulted, also in the middle of a metaepoch (generations evaluated but not yet appended to the history)
        if self.ctx.desc.get("peek_best_at_every_consultation"):
            _ = tree.best_individual
            for d in self.all_demes(tree):
                _ = d.best_individual
            if kind == "deme":
                self.cov("best_read_inside_a_metaepoch")

    def _scan(self, tree, where):
        ctx = self.ctx
        all_inds = []
        for d in self.all_demes(tree):
            inds = d.all_individuals
            all_inds.extend(inds)
            if not inds:
                continue
            b = d.best_individual
            self.cov("deme_best_checked")
            if b is None:
                self.v("deme with history reports no best", deme=d.id)
                continue
            if not any(b is i for i in inds):
                self.v(f"deme best is not an individual of its history: {type(d).__name__}", deme=d.id)
            bf = b.fitness
            for i in inds:
                if self.better(i.fitness, bf):
                    self.v(
                        f"deme best is not the best of its history: {type(d).__name__}",
                        deme=d.id,
                        reported=float(bf),
                        better=float(i.fitness),
                        where=where,
                    )
                    break
            pb = self.prev_deme_best.get(d.id)
            if pb is not None and self.better(pb, bf):
                self.v(f"deme best got worse: {type(d).__name__}", deme=d.id, before=float(pb), after=float(bf))
            self.prev_deme_best[d.id] = bf
            if ctx.maximize and not any(i is b for i in d.current_population):
                self.cov("max_best_not_in_current_pop")
        tb = tree.best_individual
        self.cov("tree_best_checked")
        if not any(tb is i for i in all_inds):
            self.v("tree best is not an individual of any history", where=where)
        for i in all_inds:
            if self.better(i.fitness, tb.fitness):
                self.v("tree best is not the best of all histories", reported=float(tb.fitness), better=float(i.fitness), where=where)
                break
        if self.prev_tree_best is not None:
            if self.better(self.prev_tree_best, tb.fitness):
                self.v("tree best got worse", before=float(self.prev_tree_best), after=float(tb.fitness), where=where)
            elif self.better(tb.fitness, self.prev_tree_best):
                self.improved += 1
        self.prev_tree_best = tb.fitness
        cur = [i for d in self.all_demes(tree) for i in d.current_population]
        if not any(i is tb for i in cur):
            self.cov("best_ever_not_in_any_current_population")
        # best == best value ever observed (all engines except the local optimiser)
        has_local = any(lv["engine"].startswith("local") for lv in ctx.desc["levels"])
        if not has_local and len(ctx.log) > ctx.log_base and not ctx.scope:
            ys = [e[2] for e in ctx.log[ctx.log_base :]]
            best_seen = max(ys) if ctx.maximize else min(ys)
            self.cov("best_vs_log_checked")
            if tb.fitness != best_seen:
                self.v("reported best != best objective value ever observed", reported=float(tb.fitness), best_seen=float(best_seen), where=where)

    def on_tree_ready(self, tree):
        self._scan(tree, "start")

    def on_step_end(self, tree):
        self._scan(tree, f"boundary {self.ctx.step}")

    def _final(self, tree):
        ctx = self.ctx
        if tree is not None:
            self._scan(tree, "end")
        res = ctx.result
        if res is not None and ctx.log:
            m = min(e[2] for e in ctx.log)
            self.cov("minimize_fun_checked")
            if res.fun != m:
                self.v("minimize(): fun != minimum of everything fun returned", fun=float(res.fun), minimum=float(m))
        if self.improved >= 2:
            from ..gen import engine_mix

            self.nt((engine_mix(ctx.desc), ctx.maximize))
        # where in the run was the best-ever value observed?  (a generation that is evaluated but not recorded
        # only matters if it holds the new best, so the workload must often improve at the very end)
        if len(ctx.log) > ctx.log_base and tree is not None and ctx.step > 0:
            ys = [e[2] for e in ctx.log[ctx.log_base :]]
            b = max(ys) if ctx.maximize else min(ys)
            first = ys.index(b) + ctx.log_base
            if first >= ctx.step_start_idx:
                self.cov("best_ever_first_observed_in_final_metaepoch")
                ft = ctx.first_true
                if ft is not None and ft[2] == "deme" and first >= ft[1] - 64:
                    self.cov("best_ever_first_observed_around_first_true")

    def on_run_end(self, tree):
        self._final(tree)

    def on_run_aborted(self, tree):
        self._final(tree)
