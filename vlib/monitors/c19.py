"""C19 - snapshot / restore at any metaepoch boundary: twin monitor.

For a run of K metaepochs, every boundary k = 0..K is a snapshot point: digest / RNG state of the live tree
around pickle_dump, public snapshot of the loaded tree vs. the live one, and the loaded tree continued to the
end under the invariant monitors of C03 / C04 / C07 / C08 (accounting relative to the restored counters).
"""
import os
import random
import shutil
import tempfile
from collections import Counter

import numpy as np

from .. import env, gen, harness
from ..harness import Ctx, activate, build_config, scramble_rng
from ..props import run_result

ROOTS = ["sea", "de", "shade", "sobol", "lhs", "mwea", "sea_cx", "de_dither", "ga", "sea_adapt", "custom"]
LEAVES = ["cma", "cma_warm", "shade", "local", "de", "cma_stds", "sea", "local_maxiter", "mwea", "custom", "custom_ea", "custom_ea2"]


def make_case(seed, idx, tier):
    rng = gen.case_rng("C19", seed, idx)
    prof = {
        "dim": (2, 3),
        "root": ROOTS[idx % len(ROOTS)],
        "leaf": LEAVES[idx % len(LEAVES)],
        "inner": rng.choice(["cma", "shade", "de", "sea", "custom_ea"]),
        "levels": [2, 2, 3],
        "gsc": "melimit",
        "lscs": ["dontstop", "melimit", "user", "children"],
        "hibernation": (idx % 3 == 0),
        "seeded_p": 0.8,
        "entry": "tree",
        "max_pop": 14,
        "max_gens": 3,
    }
    churn = idx % 8 == 5
    if churn:
        # three levels on which short-lived leaves keep stopping and several mid-level demes keep sprouting new ones: the lowest level
        # is then in *creation* order, which interleaves the children of different parents
        prof.update({"n_levels": 3, "root": ["sea", "de", "shade", "sea_cx"][(idx // 8) % 4], "inner": ["sea", "de", "shade"][(idx // 8) % 3], "leaf": ["sea", "cma", "de", "local"][(idx // 8) % 4],
                     "lscs": ["dontstop"], "hibernation": False, "sprout": "simple", "level_limit": 3, "fams": ["rastrigin", "funnel"], "boxes": ["sym", "asym"], "stacks": False, "free_lscs": True})
    d = gen.gen_tree_case(rng, prof)
    d["gsc"] = {"k": "melimit", "n": rng.randint(3, 7)}
    if churn and len(d["levels"]) == 3:
        d["gsc"] = {"k": "melimit", "n": 9}
        d["levels"][2]["lsc"] = {"k": "melimit", "n": 1 + (idx // 8) % 2}
        for lv in d["levels"][:2]:
            lv["lsc"] = {"k": "dontstop"}
            if "pop" in lv:
                lv["pop"] = max(lv["pop"], 10)
        rmin = min(b[1] - b[0] for b in d["box"]["bounds"])
        d["sprout"]["far"] = rmin * 0.02
    d["objective_form"] = ["closure", "lambda", "callable", "plain", "callable", "lambda", "plain"][idx % 7]
    if idx % 16 == 9:
        # a large snapshot (population 40 in 8 dimensions, > 64 KiB of history after two metaepochs) of a tree whose objective is an instance
        # of an importable plain-data class, with an engine that holds lambdas (MWEA) behind the histories: a dump that tries one pickler
        # and falls back to another must end up with one loadable stream
        d2 = gen.gen_tree_case(gen.case_rng("C19", seed, idx, "big"), {"dim": (8, 8), "root": "mwea", "leaf": ["sea", "mwea", "de"][(idx // 16) % 3], "levels": [1, 2], "gsc": "melimit",
                                                                      "lscs": ["dontstop"], "stacks": False, "fams": ["rastrigin", "sphere"], "boxes": ["sym"], "hibernation": False,
                                                                      "entry": "tree", "max_gens": 3, "sprout": "simple", "seeded_p": 1.0})
        d2["levels"][0]["pop"] = 40
        d2["levels"][0]["gens"] = 3
        d2["levels"][0].pop("election_group_size", None)
        d2["gsc"] = {"k": "melimit", "n": 4}
        d2["objective_form"] = "plain"
        d2["big_snapshot"] = True
        d = d2
    if idx % 16 == 6:
        # more than 10 000 evaluations through one statistics wrapper before the late snapshots: the timings it has gathered (summary() prints
        # their mean and deviation) are part of the tree's observable state however many there are
        d2 = gen.gen_tree_case(gen.case_rng("C19", seed, idx, "long"), {"dim": (2, 3), "root": ["de", "sea", "shade"][(idx // 16) % 3], "leaf": ["sea", "de", "cma"][(idx // 16) % 3], "levels": [2], "gsc": "melimit",
                                                                       "lscs": ["dontstop"], "stacks": False, "fams": ["rastrigin", "funnel"], "boxes": ["sym"], "hibernation": False,
                                                                       "entry": "tree", "max_gens": 3, "sprout": "simple", "seeded_p": 1.0})
        d2["levels"][0]["pop"] = 128
        d2["levels"][0]["gens"] = 8
        d2["levels"][0].pop("election_group_size", None)
        d2["shared"] = True
        for lv in d2["levels"]:
            lv["stack"] = ["stats"]
        d2["gsc"] = {"k": "melimit", "n": 12}
        d2["objective_form"] = "closure"
        d2["long_stats_history"] = True
        d = d2
    if idx % 8 == 3:
        # dump purity on a tree that holds NaN fitness values (objective undefined in a region): comparing two such individuals draws
        # from Python's global generator in this library, so *any* look at "the best" while dumping would alter the global random state.
        # Only the clauses about the dump itself are decided on these runs (see run_case).
        d2 = gen.gen_tree_case(gen.case_rng("C19", seed, idx, "nan"), {"dim": (2, 2), "root": ["sea", "de", "lhs", "sobol", "ga", "shade"][(idx // 8) % 6], "leaf": ["sea", "de"][(idx // 8) % 2],
                                                                      "levels": [1, 2], "gsc": "melimit", "lscs": ["dontstop"], "stacks": False, "fam": "nanzone", "boxes": ["sym", "asym"],
                                                                      "hibernation": False, "entry": "tree", "max_pop": 12, "max_gens": 2, "sprout": "simple"})
        d2["gsc"] = {"k": "melimit", "n": 4}
        d2["objective_form"] = d["objective_form"]
        d2["dump_purity_only"] = True
        d = d2
    d["continue_every"] = 2 if tier == "quick" else 1
    d["kind"] = "c19"
    return d


def _level_stacks(tree):
    from pyhms.core.problem import get_function_problem

    stacks = []
    for lv in tree.config.levels:
        objs = []
        p = lv.problem
        while True:
            objs.append(p)
            if not hasattr(p, "_inner"):
                break
            p = p._inner
        stacks.append(list(reversed(objs)))
    return stacks


def _log_of(tree):
    from pyhms.core.problem import get_function_problem

    f = get_function_problem(tree.config.levels[0].problem).fitness_function
    f = getattr(f, "rec", f)
    if getattr(f, "log", None) is None and f.__closure__:
        for c in f.__closure__:
            v = c.cell_contents
            if callable(v) and hasattr(v, "log"):
                return v.log
    return f.log


def _timings(tree):
    """What every statistics wrapper of the tree has gathered: (level, position in the stack, number of timings, digest of the timings).  A live
    run never repeats its timings, but a dump followed by a load has to hand back exactly the ones that were dumped (summary() reports them)."""
    import hashlib

    out = []
    for li, stack in enumerate(_level_stacks(tree)):
        for pi, w in enumerate(stack):
            if type(w).__name__ == "StatsGatheringProblem":
                ds = list(w.durations)
                out.append((li, pi, len(ds), hashlib.sha256(repr([float(x).hex() for x in ds]).encode()).hexdigest()[:16], int(w.n_evaluations)))
    return out


def _gsc_verdict(tree):
    with activate(None):
        return bool(tree._gsc(tree))


def continue_loaded(desc, loaded, monitors):
    """Run the loaded tree to the end under fresh monitors (state relative to the restored counters)."""
    ctx = Ctx(desc, monitors)
    ctx.tree = loaded
    ctx.config = loaded.config
    ctx.log = _log_of(loaded)
    ctx.stacks = _level_stacks(loaded)
    ctx.step = 0
    for lvl in loaded.levels:
        for d in lvl:
            ctx.attrib[d.id] = d.n_evaluations
    ctx.scoped_total = len(ctx.log)
    ctx.attrib_baseline = True
    with activate(ctx):
        try:
            ctx.emit("tree_created", loaded, 0)
            ctx.emit("tree_ready", loaded)
            loaded.run()
            ctx.emit("run_end", loaded)
        except harness.WatchdogAbort as e:
            ctx.aborted = ("watchdog", str(e))
        except harness.HarnessError:
            raise
        except Exception as e:
            import traceback

            ctx.aborted = ("exception", type(e).__name__, str(e)[:300], traceback.format_exc()[-1200:])
    return ctx


def run_case(desc):
    from pyhms.tree import DemeTree

    from ..observe import diff_snapshots, public_snapshot, raw_digest, rng_fingerprint, snapshot_digest
    from .c01_c04 import C03Counts, C04Best
    from .c05_c09 import C07Structure, C08LevelLimit

    tmp = tempfile.mkdtemp(prefix="c19-", dir=env.scratch_root())
    try:
        ctx = Ctx(desc, [])
        scramble_rng(desc.get("np_seed", 0))
        snaps = []
        cov = Counter()

        def viol(key, **detail):
            ctx.violation("C19", key, detail)

        with activate(ctx):
            try:
                cfg = build_config(desc, ctx)
                tree = DemeTree(cfg)
                k = 0
                timings_by_k = {}
                while True:
                    # ---- snapshot point k
                    before = raw_digest(tree)
                    rng_b = rng_fingerprint()
                    n_log = len(ctx.log)
                    path = os.path.join(tmp, f"k{k}.pkl")
                    rng_state = (np.random.get_state(), random.getstate())
                    tree.pickle_dump(path)
                    cov["dumps"] += 1
                    if desc.get("objective_form") == "plain":
                        cov["dumps_of_a_tree_whose_objective_is_a_plain_data_instance"] += 1
                        if os.path.getsize(path) > 128 * 1024:
                            cov["dumps_larger_than_128_KiB_with_a_plain_data_objective"] += 1
                    if raw_digest(tree) != before:
                        viol("pickle_dump altered the live tree", k=k)
                    if rng_fingerprint() != rng_b:
                        viol("pickle_dump altered the global random state", k=k)
                    if len(ctx.log) != n_log:
                        viol("pickle_dump invoked the objective", k=k)
                    if desc.get("dump_purity_only"):
                        # would a look at the best have drawn from the global generator here?  (measured, then undone)
                        st_ = (np.random.get_state(), random.getstate())
                        fp_ = rng_fingerprint()
                        try:
                            _ = tree.best_individual
                        except Exception:
                            pass
                        if rng_fingerprint() != fp_:
                            cov["dumps_of_a_tree_on_which_reading_the_best_draws_from_the_global_generator"] += 1
                        np.random.set_state(st_[0])
                        random.setstate(st_[1])
                        cov["dumps_of_a_tree_holding_nan_fitness_values"] += int(any(i_.fitness != i_.fitness for l_ in tree.levels for d_ in l_ for i_ in d_.all_individuals))
                        if tree._gsc(tree) or k > 12:
                            break
                        tree.run_step()
                        k += 1
                        continue
                    live = public_snapshot(tree)
                    live["gsc_verdict"] = _gsc_verdict(tree)
                    live["raw"] = before
                    snaps.append((k, path, rng_state, live))
                    timings_by_k[k] = _timings(tree)
                    if any(t[2] > 10000 for t in timings_by_k[k]):
                        cov["snapshots_after_more_than_10000_evaluations_through_one_statistics_wrapper"] += 1
                    self_has = {type(d).__name__ for lvl in tree.levels for d in lvl if d.is_active}
                    if "CMADeme" in self_has:
                        cov["snapshot_with_active_cma"] += 1
                    if any(d._hibernating and d.is_active for lvl in tree.levels for d in lvl):
                        cov["snapshot_with_hibernating_deme"] += 1
                    if any(d.metaepoch_count == 0 and d.level > 0 for lvl in tree.levels for d in lvl):
                        cov["snapshot_with_fresh_deme"] += 1
                    if len(tree.levels) >= 3 and len(tree.levels[2]) >= 3:
                        par = {c_.id: p_.id for p_ in tree.levels[1] for c_ in p_.children}
                        seq = [par.get(d_.id) for d_ in tree.levels[2]]
                        runs = [x for i_, x in enumerate(seq) if i_ == 0 or seq[i_ - 1] != x]
                        if len(runs) != len(set(runs)):
                            cov["snapshot_whose_lowest_level_interleaves_the_children_of_different_parents"] += 1
                    if live["gsc_verdict"]:
                        cov["snapshot_at_K"] += 1
                        break
                    if k == 0:
                        cov["snapshot_at_0"] += 1
                    tree.run_step()
                    k += 1
                    if k > 40:
                        break
                final_live = public_snapshot(tree)
                final_live["raw"] = raw_digest(tree)
            except harness.WatchdogAbort as e:
                ctx.aborted = ("watchdog", str(e))
            except harness.HarnessError:
                raise
            except Exception as e:
                import traceback

                ctx.aborted = ("exception", type(e).__name__, str(e)[:300], traceback.format_exc()[-1200:])
        res = run_result(ctx, desc)
        res["cov"].update(cov)
        cov = res["cov"]
        if ctx.aborted or desc.get("dump_purity_only"):
            res["violations"] = ctx.violations
            return res
        K = snaps[-1][0]
        seeded = desc.get("options", {}).get("random_seed") is not None
        for k, path, rng_state, live in snaps:
            try:
                loaded = DemeTree.pickle_load(path)
            except Exception as e:
                viol("pickle_load failed", k=k, error=repr(e)[:300])
                continue
            cov["loads"] += 1
            if k in timings_by_k:
                cov["timings_of_statistics_wrappers_compared_after_load"] += len(timings_by_k[k])
                lt = _timings(loaded)
                if lt != timings_by_k[k]:
                    viol("statistics wrapper of the loaded tree holds other timings than the one that was dumped", k=k, dumped=[t[:3] + t[4:] for t in timings_by_k[k]], loaded=[t[:3] + t[4:] for t in lt])
            ls = public_snapshot(loaded)
            ls["gsc_verdict"] = _gsc_verdict(loaded)
            ls["raw"] = raw_digest(loaded)
            if snapshot_digest(ls) != snapshot_digest(live):
                viol(
                    "loaded tree is not observationally identical to the tree that was dumped",
                    k=k,
                    differences=diff_snapshots(live, ls),
                    engines=gen.engine_mix(desc),
                )
                continue
            if len(ls["demes"]) >= 2:
                res["nontrivial"].append([gen.engine_mix(desc), k, bool(desc["options"].get("hibernation")), desc.get("objective_form")])
            if k % desc.get("continue_every", 1) and k != K:
                continue
            # ---- continue the loaded tree under the invariant monitors, from the RNG state of the dump moment
            np.random.set_state(rng_state[0])
            random.setstate(rng_state[1])
            n_before = len(loaded.all_demes)
            c2 = continue_loaded(desc, loaded, [C03Counts(), C04Best(), C07Structure(), C08LevelLimit()])
            cov["continued_runs"] += 1
            for v in c2.violations:
                v = dict(v)
                v["property"] = "C19"
                v["key"] = "continued run of a loaded tree: " + v["key"]
                v["detail"]["snapshot_k"] = k
                ctx.violations.append(v)
            if c2.aborted:
                cov["continued_runs_aborted"] += 1
                if c2.aborted[0] == "exception":
                    viol("continued run of a loaded tree raised", k=k, error=list(c2.aborted[:3]))
                continue
            if len(loaded.all_demes) > n_before:
                cov["continued_run_sprouted_again"] += 1
            fl = public_snapshot(loaded)
            fl["raw"] = raw_digest(loaded)
            cov["futures_compared"] += 1
            # Statistic, not a verdict: C19 does not claim that the loaded tree's future equals the live tree's
            # (a seeded CMA-ES deme holds numpy's global generator through a bound method, which dill pickles by
            # value - the loaded deme then draws from a private copy of the generator).
            if snapshot_digest(fl) != snapshot_digest(final_live):
                cov["futures_differ_from_live_continuation"] += 1
            else:
                cov["futures_identical_to_live_continuation"] += 1
        # ---- the crash-recovery use case: one snapshot of the run is loaded and continued in a *fresh interpreter*
        import json as _json
        import subprocess

        if len(snaps) >= 2:
            k, path, rng_state, live = snaps[(desc.get("np_seed", 0) % (len(snaps) - 1))]
            envv = dict(os.environ)
            envv["PYTHONPATH"] = env.VERIF_DIR + os.pathsep + envv.get("PYTHONPATH", "")
            envv["VERIF_REPO"] = env.REPO
            try:
                p = subprocess.run([env.PYTHON, "-m", "vlib.monitors.c19sub"], input=_json.dumps({"path": path, "desc": desc}), capture_output=True, text=True, timeout=180, env=envv, cwd=env.VERIF_DIR)
                if p.returncode != 0:
                    raise harness.HarnessError("c19 subprocess failed: " + p.stderr[-1500:])
                sub = _json.loads(p.stdout.strip().split("\n")[-1])
                cov["fresh_process_loads"] += 1
                if "load_error" in sub:
                    viol("pickle_load failed in a fresh interpreter", k=k, error=sub["load_error"], engines=gen.engine_mix(desc))
                else:
                    s2 = sub["snapshot"]
                    if snapshot_digest(_json.loads(_json.dumps(s2))) != snapshot_digest(_json.loads(_json.dumps(live))):
                        viol("tree loaded in a fresh interpreter is not observationally identical to the tree that was dumped", k=k, differences=diff_snapshots(_json.loads(_json.dumps(live)), s2), engines=gen.engine_mix(desc))
                    for v in sub["violations"]:
                        v = dict(v)
                        v["property"] = "C19"
                        v["key"] = "continued run (fresh interpreter) of a loaded tree: " + v["key"]
                        ctx.violations.append(v)
                    if sub["aborted"] and sub["aborted"][0] == "exception":
                        viol("continued run of a tree loaded in a fresh interpreter raised", k=k, error=sub["aborted"], engines=gen.engine_mix(desc))
                    elif not sub["aborted"]:
                        cov["fresh_process_continued_runs"] += 1
                        if sub.get("sprouted_again"):
                            cov["fresh_process_continued_run_sprouted_again"] += 1
            except subprocess.TimeoutExpired:
                cov["fresh_process_timeouts"] += 1
        res["violations"] = ctx.violations
        res["sample"]["snapshots"] = {"K": K, "continued": int(cov["continued_runs"]), "objective_form": desc.get("objective_form")}
        return res
    finally:
        shutil.rmtree(tmp, ignore_errors=True)
