"""Observation of a tree: public-API snapshot, raw digest of private state, RNG fingerprint."""
import hashlib
import pickle
import random

import numpy as np

from .harness import canon


def _h(*parts) -> str:
    h = hashlib.sha1()
    for p in parts:
        if isinstance(p, str):
            p = p.encode()
        h.update(p)
    return h.hexdigest()


def _fit(f):
    return np.float64(np.nan if f is None else f).tobytes()


def gen_bytes(generation) -> bytes:
    return b"".join(canon(i.genome).tobytes() + _fit(i.fitness) for i in generation)


def public_snapshot(tree, with_text=True) -> dict:
    """Everything observable through the public API (uuids, timings and log output are not part of any claim)."""
    demes = []
    for li, lvl in enumerate(tree.levels):
        for d in lvl:
            hist = d.history
            b = d.best_individual
            c = d.centroid if hist and d.current_population else None
            demes.append(
                {
                    "id": d.id,
                    "level": d.level,
                    "held_in": li,
                    "class": type(d).__name__,
                    "started_at": d.started_at,
                    "active": bool(d.is_active),
                    "n_evaluations": int(d.n_evaluations),
                    "metaepoch_count": int(d.metaepoch_count),
                    "generations": len(hist),
                    "history": [_h(gen_bytes(g)) for g in hist],
                    "sizes": [len(g) for g in hist],
                    "children": [c_.id for c_ in d.children],
                    "best": None if b is None else _h(canon(b.genome).tobytes(), _fit(b.fitness)),
                    "best_fitness": None if b is None else float(b.fitness),
                    "centroid": None if c is None else _h(np.asarray(c, dtype=np.float64).tobytes()),
                    "seed": None if d._sprout_seed is None else _h(canon(d._sprout_seed.genome).tobytes(), _fit(d._sprout_seed.fitness)),
                }
            )
    tb = tree.best_individual
    snap = {
        "metaepoch_count": int(tree.metaepoch_count),
        "n_evaluations": int(tree.n_evaluations),
        "height": tree.height,
        "n_demes": len(tree.all_demes),
        "best": _h(canon(tb.genome).tobytes(), _fit(tb.fitness)),
        "best_fitness": float(tb.fitness),
        "demes": demes,
    }
    if with_text:
        snap["summary"] = _strip_durations(tree.summary())
    return snap


def _strip_durations(text: str) -> str:
    return "\n".join(ln for ln in text.split("\n") if not ln.startswith("Problem duration"))


def snapshot_digest(snap: dict) -> str:
    return _h(repr(sorted_deep(snap)))


def sorted_deep(o):
    if isinstance(o, dict):
        return [(k, sorted_deep(o[k])) for k in sorted(o)]
    if isinstance(o, (list, tuple)):
        return [sorted_deep(x) for x in o]
    return o


def diff_snapshots(a: dict, b: dict, limit=6) -> list:
    out = []

    def rec(x, y, path):
        if len(out) >= limit:
            return
        if isinstance(x, dict) and isinstance(y, dict):
            for k in sorted(set(x) | set(y)):
                if k not in x or k not in y:
                    out.append(f"{path}.{k}: only on one side")
                else:
                    rec(x[k], y[k], f"{path}.{k}")
        elif isinstance(x, list) and isinstance(y, list):
            if len(x) != len(y):
                out.append(f"{path}: length {len(x)} != {len(y)}")
            for i, (p, q) in enumerate(zip(x, y)):
                rec(p, q, f"{path}[{x[i].get('id', i) if isinstance(x[i], dict) else i}]")
        elif x != y and not (isinstance(x, float) and isinstance(y, float) and x != x and y != y):
            out.append(f"{path}: {str(x)[:60]} != {str(y)[:60]}")

    rec(a, b, "tree")
    return out


def raw_digest(tree) -> str:
    """sha1 over private state as well (history nesting, activity / hibernation flags, seeds, counters of every
    counting wrapper, SHADE memory / archive, CMA-ES mean / sigma / generation counter, sampler state, sprout-mechanism
    record lengths) - excluding pure caches, uuids, durations and the logger."""
    h = hashlib.sha1()

    def up(*xs):
        for x in xs:
            if isinstance(x, np.ndarray):
                h.update(np.ascontiguousarray(x, dtype=np.float64).tobytes())
            elif isinstance(x, bytes):
                h.update(x)
            else:
                h.update(repr(x).encode())

    up(tree.metaepoch_count, getattr(tree, "_random_seed", None))
    for li, lvl in enumerate(tree.levels):
        for d in lvl:
            up(d.id, li, d._level, d._started_at, d._active, d._hibernating, type(d).__name__)
            for me in d._history:
                up(len(me))
                for g in me:
                    up(len(g), gen_bytes(g))
            up([c.id for c in d._children])
            if d._sprout_seed is not None:
                up(canon(d._sprout_seed.genome), _fit(d._sprout_seed.fitness))
            up(d.n_evaluations, d._problem._n_evals)
            p = d._problem
            seen = 0
            while hasattr(p, "_inner") and seen < 8:
                p = p._inner
                seen += 1
                up(type(p).__name__, getattr(p, "_n_evals", None), getattr(p, "ETA", None), getattr(p, "hit_precision", None))
            if hasattr(d, "_n_evals"):
                up(d._n_evals)
            sh = getattr(d, "_shade", None)
            if sh is not None:
                up(sh._m_cr, sh._m_f, sh._k)
                if sh._archive is not None:
                    up(sh._archive.genomes, sh._archive.fitnesses)
            es = getattr(d, "_cma_es", None)
            if es is not None:
                up(np.asarray(es.mean), float(es.sigma), int(es.countiter), int(es.countevals))
            smp = getattr(d, "sampler", None)
            if smp is not None:
                up(int(getattr(smp, "num_generated", -1)))
                try:
                    up(pickle.dumps(smp.rng.bit_generator.state))
                except Exception:
                    pass
    sm = tree._sprout_mechanism
    up(len(getattr(sm, "_generated_deme_ids_to_candidates_history", [])), len(getattr(sm, "_used_deme_ids_to_candidates_history", [])))
    return h.hexdigest()


def rng_fingerprint() -> str:
    st = np.random.get_state()
    return _h(repr(st[0]), st[1].tobytes(), repr(st[2:]), repr(random.getstate()))
