"""Case fan-out over worker subprocesses, aggregation, finding classification, evidence writer.

No multiprocessing.Pool (it hangs when a child dies): one `subprocess.run(timeout=...)`-style child per
worker slot, each handling the case indices  k, k+J, k+2J, ...  and writing one JSON result file.
"""
import json
import os
import subprocess
import sys
import tempfile
import time
from collections import Counter

from . import env


def load_known():
    try:
        with open(env.KNOWN_FINDINGS) as f:
            return json.load(f)
    except FileNotFoundError:
        return []


def run_workers(prop: str, tier: str, seed: int, n_cases: int, jobs: int, budget_s: float):
    """Returns list of per-worker result dicts (or error records)."""
    jobs = max(1, min(jobs, n_cases))
    outdir = tempfile.mkdtemp(prefix=f"verif-{prop}-", dir=env.scratch_root())
    procs = []
    envv = dict(os.environ)
    envv.setdefault("PYTHONHASHSEED", "0")
    envv["VERIF_REPO"] = env.REPO
    envv["PYTHONPATH"] = env.VERIF_DIR + os.pathsep + envv.get("PYTHONPATH", "")
    envv[env.GUARD] = "1"
    envv.setdefault("MPLBACKEND", "Agg")
    envv.setdefault("OMP_NUM_THREADS", "1")
    envv.setdefault("OPENBLAS_NUM_THREADS", "1")
    envv.setdefault("MKL_NUM_THREADS", "1")
    for k in range(jobs):
        out = os.path.join(outdir, f"w{k}.json")
        cmd = [env.PYTHON, "-m", "vlib.worker", prop, tier, str(seed), str(k), str(jobs), str(n_cases), out, str(budget_s)]
        # pyhms logs to stdout at the verbose log levels some cases use: never let a worker block on a full pipe
        errf = open(os.path.join(outdir, f"w{k}.err"), "w+")
        p = subprocess.Popen(cmd, cwd=env.VERIF_DIR, env=envv, stdout=subprocess.DEVNULL, stderr=errf, text=True)
        procs.append((k, p, out, errf))
    results = []
    deadline = time.time() + budget_s * 3 + 120
    for k, p, out, errf in procs:
        def _err():
            try:
                errf.seek(0)
                txt = errf.read()
            except Exception:
                txt = ""
            errf.close()
            try:
                os.unlink(errf.name)
            except OSError:
                pass
            return txt

        try:
            p.wait(timeout=max(1.0, deadline - time.time()))
        except subprocess.TimeoutExpired:
            p.kill()
            p.wait()
            results.append({"worker": k, "error": "worker wall-clock watchdog", "stderr": _err()[-2000:]})
            continue
        se = _err()
        if p.returncode != 0 or not os.path.exists(out):
            results.append({"worker": k, "error": f"worker exit {p.returncode}", "stderr": se[-4000:]})
            continue
        with open(out) as f:
            results.append(json.load(f))
        os.unlink(out)
    try:
        os.rmdir(outdir)
    except OSError:
        pass
    return results


def aggregate(prop: str, spec, tier: str, seed: int, results, wall: float, n_cases: int):
    cov = Counter()
    nontrivial = set()
    violations = []
    samples = []
    errors = []
    aborted = Counter()
    done = 0
    timeouts = 0
    truncated = 0
    slow = []
    for r in results:
        if "error" in r:
            errors.append(r)
            continue
        cov.update(r["cov"])
        for x in r["nontrivial"]:
            nontrivial.add(json.dumps(x, sort_keys=True))
        violations.extend(r["violations"])
        samples.extend(r["samples"])
        aborted.update(r.get("aborted", {}))
        done += r["done"]
        timeouts += r.get("timeouts", 0)
        slow.extend(r.get("slow", []))
        truncated += r.get("skipped_for_time", 0)
        for e in r.get("harness_errors", []):
            errors.append({"worker": r.get("worker"), "error": "harness error", "stderr": e})

    known = [k for k in load_known() if k.get("property") == prop]
    open_keys = {k["key"]: k for k in known if k.get("status") == "open"}
    by_key = {}
    for v in violations:
        by_key.setdefault(v["key"], []).append(v)
    lines = []
    new_keys = []
    known_hit = []
    os.makedirs(os.path.join(env.REPLAY_DIR, prop), exist_ok=True)
    for key, vs in sorted(by_key.items()):
        if key in open_keys:
            known_hit.append(key)
            lines.append(f"KNOWN-FINDING: property={prop} {open_keys[key].get('what', key)} [{len(vs)} occurrence(s)]")
            continue
        new_keys.append(key)
        fn = os.path.join(env.REPLAY_DIR, prop, _slug(key) + ".json")
        with open(fn, "w") as f:
            json.dump({"property": prop, "key": key, "n_occurrences": len(vs), "witness": vs[0], "more": [w.get("case_idx") for w in vs[1:20]]}, f, indent=1)
        lines.append(f"VIOLATION property={prop} replay={fn}")
        lines.append(f"  mechanism: {key}  ({len(vs)} occurrence(s)); first witness detail: {json.dumps(vs[0].get('detail'))[:600]}")

    floors_missed = []
    for name, need, what in spec.floors(tier):
        have = sum(v for k, v in cov.items() if k == name or k.startswith(name + "."))
        if have < need:
            floors_missed.append(f"{name}: {have} < {need} ({what})")

    status = "held"
    if new_keys:
        status = "violated"
    elif errors:
        status = "inconclusive"
        for e in errors[:3]:
            lines.append(f"INCONCLUSIVE property={prop} reason=harness/worker error: {e.get('error')} :: {str(e.get('stderr'))[-1500:]}")
    elif floors_missed:
        status = "inconclusive"
        lines.append(f"INCONCLUSIVE property={prop} reason=coverage floor missed: " + "; ".join(floors_missed))
    elif done == 0:
        status = "inconclusive"
        lines.append(f"INCONCLUSIVE property={prop} reason=no case completed")

    evidence = {
        "property_id": prop,
        "tier": tier,
        "seed": seed,
        "level": "exploration",
        "coverage": {
            "evaluations": int(done),
            "distinct_nontrivial": len(nontrivial),
            "rule": spec.rule,
            "samples": samples[:5],
            "observed": {k: int(v) for k, v in sorted(cov.items())},
            "cases_scheduled": n_cases,
            "cases_skipped_for_time": truncated,
            "case_timeouts": timeouts,
            "slow_cases": [{k: v for k, v in s_.items() if k != "case"} | {"engines": [lv.get("engine") for lv in s_["case"].get("levels", [])], "box": s_["case"].get("box", {}).get("cls"), "obj": s_["case"].get("obj", {}).get("fam"), "gsc": s_["case"].get("gsc")} for s_ in slow[:8] if isinstance(s_.get("case"), dict)],
            "runs_aborted_by_pyhms_exception_or_watchdog": dict(aborted),
            "floors_missed": floors_missed,
            "known_findings_hit": known_hit,
            "violation_mechanisms": new_keys,
            "verdict": status,
        },
        "assumptions": spec.assumptions,
        "wall_s": round(wall, 2),
        "violations": len(new_keys),
    }
    os.makedirs(env.EVIDENCE_DIR, exist_ok=True)
    with open(os.path.join(env.EVIDENCE_DIR, f"{prop}.json"), "w") as f:
        json.dump(evidence, f, indent=1, default=str)
    return status, lines, evidence


def _slug(s: str) -> str:
    import re

    return re.sub(r"[^A-Za-z0-9]+", "_", s)[:90].strip("_")


def main_check(prop: str, tier: str, n_override=None, jobs=None, budget=None):
    from .props import PROPS

    spec = PROPS[prop]
    seed = env.SEED
    n = n_override or spec.n_cases(tier)
    budget_s = budget or spec.budget_s(tier)
    t0 = time.time()
    results = run_workers(prop, tier, seed, n, jobs or env.JOBS, budget_s)
    status, lines, ev = aggregate(prop, spec, tier, seed, results, time.time() - t0, n)
    for ln in lines:
        print(ln)
    c = ev["coverage"]
    print(
        f"[{prop}] tier={tier} seed={seed} verdict={status} cases={c['evaluations']}/{n} distinct_nontrivial={c['distinct_nontrivial']} "
        f"aborted={sum(c['runs_aborted_by_pyhms_exception_or_watchdog'].values())} wall={ev['wall_s']}s"
    )
    sys.stdout.flush()
    return {"held": 0, "violated": 1, "inconclusive": 2}[status]
