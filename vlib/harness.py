"""Harness: recording objective, pass-through taps, class-level method taps, configuration builder and
the instrumented run.  Everything is attached from outside; nothing in /repo knows about it.

One `Ctx` is *current* at a time (`activate(ctx)`); every tap is a pure pass-through when no context is
current.  Taps call `ctx.emit(event, ...)`, which dispatches to the monitors' `on_<event>` methods.
"""
import functools
import hashlib
import random
import sys
import traceback
import warnings
from collections import Counter, deque
from contextlib import contextmanager

import numpy as np

from . import env
from .objectives import g_min, make_math

env.import_pyhms()

import pyhms.tree as _T  # noqa: E402
from pyhms.config import (  # noqa: E402
    CMALevelConfig,
    DELevelConfig,
    EALevelConfig,
    LHSLevelConfig,
    LocalOptimizationConfig,
    SHADELevelConfig,
    SobolLevelConfig,
    TreeConfig,
)
from pyhms.core.problem import (  # noqa: E402
    EvalCountingProblem,
    EvalCutoffProblem,
    FunctionProblem,
    PrecisionCutoffProblem,
    StatsGatheringProblem,
)
from pyhms.demes.abstract_deme import AbstractDeme  # noqa: E402
from pyhms.demes.single_pop_eas import de as _de  # noqa: E402
from pyhms.demes.single_pop_eas import sea as _sea  # noqa: E402
from pyhms.sprout import sprout_filters as _sf  # noqa: E402
from pyhms.sprout import sprout_generators as _sg  # noqa: E402
from pyhms.sprout.sprout_mechanisms import SproutMechanism, get_NBC_sprout, get_simple_sprout  # noqa: E402
from pyhms.stop_conditions import (  # noqa: E402
    AllChildrenStopped,
    AllStopped,
    DontRun,
    DontStop,
    FitnessEvalLimitReached,
    FitnessSteadiness,
    MetaepochLimit,
    NoActiveNonrootDemes,
    RootStopped,
    SingularProblemEvalLimitReached,
    SingularProblemPrecisionReached,
    WeightingStrategy,
)
from pyhms.tree import DemeTree  # noqa: E402

from . import userdefs  # noqa: E402

CUR = None  # the current Ctx (None: all taps are transparent)
EVAL_CAP = 400_000


class WatchdogAbort(Exception):
    """Raised by the harness to end a run that exceeds its caps (verdict: not a verdict)."""


class HarnessError(Exception):
    """A bug in the monitors / harness itself (never folded into a verdict)."""


# ----------------------------------------------------------------------------------------------------
# recording objective


def make_recorder(log: list, tag: int, g, sign: float):
    """A plain closure on purpose (deep-copy-atomic; dill pickles it by value *with* its log)."""

    def rec(x, *args, **kwargs):
        xc = np.array(x, dtype=np.float64).reshape(-1).copy()
        y = g(xc)
        if sign < 0:
            y = -y  # exact, and keeps the type the objective returned (int, numpy scalar, float)
        log.append((tag, xc.tobytes(), y))
        if len(log) > EVAL_CAP:
            raise WatchdogAbort("evaluation cap")
        return y

    rec.log = log
    rec.tag = tag
    return rec


def canon(x) -> np.ndarray:
    return np.array(x, dtype=np.float64).reshape(-1).copy()


def gen_digest(generation) -> str:
    h = hashlib.sha1()
    for ind in generation:
        h.update(canon(ind.genome).tobytes())
        h.update(np.float64(ind.fitness if ind.fitness is not None else np.nan).tobytes())
    return h.hexdigest()


# ----------------------------------------------------------------------------------------------------
# pass-through taps installed into the configuration


class _Delegating:
    def __getattr__(self, name):
        d = self.__dict__
        if "inner" not in d:  # half-built object during unpickling
            raise AttributeError(name)
        return getattr(d["inner"], name)

    def __str__(self):
        return str(self.inner)


class GscTap(_Delegating):
    def __init__(self, inner):
        self.inner = inner

    def __call__(self, tree):
        v = self.inner(tree)
        ctx = CUR
        if ctx is not None:
            f = sys._getframe(1)
            ctx._on_gsc(tree, v, f.f_code.co_name, f.f_locals.get("self"))
        return v


class LscTap(_Delegating):
    def __init__(self, inner):
        self.inner = inner

    def __call__(self, deme):
        v = self.inner(deme)
        ctx = CUR
        if ctx is not None:
            ctx.emit("lsc", deme, bool(v))
        return v


class FilterTap(_Delegating):
    def __init__(self, inner):
        self.inner = inner

    def __call__(self, candidates, tree):
        ctx = CUR
        if ctx is None:
            return self.inner(candidates, tree)
        before = {deme: list(c.individuals) for deme, c in candidates.items()}
        out = self.inner(candidates, tree)
        ctx.emit("filter", self.inner, before, out, tree)
        return out


class GeneratorTap(_Delegating):
    def __init__(self, inner):
        self.inner = inner

    def __call__(self, tree):
        out = self.inner(tree)
        ctx = CUR
        if ctx is not None:
            ctx.emit("generator", self.inner, out, tree)
        return out


class SproutTap(_Delegating):
    def __init__(self, inner):
        self.inner = inner

    def get_seeds(self, tree):
        ctx = CUR
        if ctx is None:
            return self.inner.get_seeds(tree)
        ctx.emit("sprout_begin", tree)
        seeds = self.inner.get_seeds(tree)
        ctx.round_seeds = seeds
        ctx.emit("sprout_seeds", tree, seeds)
        return seeds


def tap_mechanism(mech):
    if isinstance(mech, SproutTap):
        return mech
    if isinstance(mech, SproutMechanism):
        if not isinstance(mech.candidates_generator, GeneratorTap):
            mech.candidates_generator = GeneratorTap(mech.candidates_generator)
        mech.deme_filter_chain = [f if isinstance(f, FilterTap) else FilterTap(f) for f in mech.deme_filter_chain]
        mech.tree_filter_chain = [f if isinstance(f, FilterTap) else FilterTap(f) for f in mech.tree_filter_chain]
    return SproutTap(mech)


def tap_config(config):
    if not isinstance(config.gsc, GscTap):
        config.gsc = GscTap(config.gsc)
    for lv in config.levels:
        if not isinstance(lv.lsc, LscTap):
            lv.lsc = LscTap(lv.lsc)
    config.sprout_mechanism = tap_mechanism(config.sprout_mechanism)


# ----------------------------------------------------------------------------------------------------
# class-level method taps

_installed = False
_originals = []


def _all_deme_classes():
    out, todo = [], [AbstractDeme]
    while todo:
        c = todo.pop()
        for s in c.__subclasses__():
            if s not in out:
                out.append(s)
                todo.append(s)
    return out


def _patch(owner, name, make_wrapper):
    orig = owner.__dict__[name] if isinstance(owner, type) else getattr(owner, name)
    if getattr(orig, "_verif_tap", False):
        return
    w = make_wrapper(orig)
    w._verif_tap = True
    w._verif_orig = orig
    _originals.append((owner, name, orig))
    setattr(owner, name, w)


def rebind_everywhere(orig, new):
    """Names imported with `from m import f` hold the original object: re-bind them in every module."""
    for mod in list(sys.modules.values()):
        d = getattr(mod, "__dict__", None)
        if not d or not getattr(mod, "__name__", "").startswith("pyhms"):
            continue
        for k, v in list(d.items()):
            if v is orig:
                _originals.append((mod, k, orig))
                setattr(mod, k, new)


def install():
    global _installed
    if _installed:
        return
    _installed = True

    def w_tree_init(orig):
        @functools.wraps(orig)
        def __init__(self, config):
            ctx = CUR
            if ctx is None:
                return orig(self, config)
            tap_config(config)
            ctx.tree = self
            ctx.config = config
            start = len(ctx.log)
            orig(self, config)
            ctx.emit("tree_created", self, len(ctx.log) - start)

        return __init__

    _patch(DemeTree, "__init__", w_tree_init)

    def w_simple(event):
        def mk(orig):
            @functools.wraps(orig)
            def w(self, *a, **k):
                ctx = CUR
                if ctx is None:
                    return orig(self, *a, **k)
                ctx.emit(event + "_begin", self)
                r = orig(self, *a, **k)
                ctx.emit(event + "_end", self)
                return r

            return w

        return mk

    def w_step(orig):
        @functools.wraps(orig)
        def run_step(self):
            ctx = CUR
            if ctx is None:
                return orig(self)
            ctx.step += 1
            ctx.in_step = True
            ctx.step_start_idx = len(ctx.log)
            ctx.emit("step_begin", self)
            orig(self)
            ctx.in_step = False
            ctx.emit("step_end", self)
            ctx._after_step(self)

        return run_step

    _patch(DemeTree, "run_step", w_step)
    _patch(DemeTree, "run", w_simple("runloop"))
    _patch(DemeTree, "run_metaepoch", w_simple("mephase"))

    def w_sprout(orig):
        @functools.wraps(orig)
        def run_sprout(self):
            ctx = CUR
            if ctx is None:
                return orig(self)
            ctx.round_seeds = None
            ctx.emit("sprout_phase_begin", self)
            orig(self)
            ctx.emit("sprout_end", self, ctx.round_seeds)

        return run_sprout

    _patch(DemeTree, "run_sprout", w_sprout)

    def w_init_from_config(orig):
        @functools.wraps(orig)
        def init_from_config(*a, **k):
            ctx = CUR
            if ctx is None:
                return orig(*a, **k)
            start = len(ctx.log)
            ctx.scope.append(("init", k.get("new_id"), start))
            try:
                deme = orig(*a, **k)
            finally:
                ctx.scope.pop()
            n = len(ctx.log) - start
            ctx.attrib[deme.id] = ctx.attrib.get(deme.id, 0) + n
            ctx.scoped_total += n
            ctx.emit("init", deme, start, len(ctx.log))
            return deme

        return init_from_config

    orig_ifc = _T.init_from_config
    new_ifc = w_init_from_config(orig_ifc)
    new_ifc._verif_tap = True
    rebind_everywhere(orig_ifc, new_ifc)

    def w_deme_me(orig):
        @functools.wraps(orig)
        def run_metaepoch(self, tree):
            ctx = CUR
            if ctx is None:
                return orig(self, tree)
            start = len(ctx.log)
            ctx.scope.append(("me", self.id, start))
            ctx.emit("deme_enter", self)
            try:
                r = orig(self, tree)
            finally:
                ctx.scope.pop()
                n = len(ctx.log) - start
                ctx.attrib[self.id] = ctx.attrib.get(self.id, 0) + n
                ctx.scoped_total += n
            ctx.emit("deme_exit", self, start, len(ctx.log))
            return r

        return run_metaepoch

    for cls in _all_deme_classes():
        if "run_metaepoch" in cls.__dict__:
            _patch(cls, "run_metaepoch", w_deme_me)

    def w_engine(kind):
        def mk(orig):
            @functools.wraps(orig)
            def run(self, parents, *a, **k):
                ctx = CUR
                if ctx is not None:
                    ctx.emit("engine_in", kind, self, parents)
                out = orig(self, parents, *a, **k)
                if ctx is not None:
                    ctx.emit("engine_out", kind, self, parents, out)
                return out

            return run

        return mk

    _patch(_sea.BaseSEA, "run", w_engine("sea"))
    _patch(_sea.MWEA, "run", w_engine("mwea"))
    _patch(_de.DE, "run", w_engine("de"))
    _patch(_de.SHADE, "run", w_engine("shade"))

    import cma

    def w_tell(orig):
        @functools.wraps(orig)
        def tell(self, solutions, function_values, *a, **k):
            ctx = CUR
            if ctx is not None:
                ctx.emit("cma_tell", self, solutions, function_values)
            return orig(self, solutions, function_values, *a, **k)

        return tell

    _patch(cma.CMAEvolutionStrategy, "tell", w_tell)


def uninstall():
    global _installed
    for owner, name, orig in reversed(_originals):
        setattr(owner, name, orig)
    _originals.clear()
    _installed = False


@contextmanager
def activate(ctx):
    global CUR
    install()
    prev = CUR
    CUR = ctx
    try:
        yield ctx
    finally:
        CUR = prev


# ----------------------------------------------------------------------------------------------------
# context


class Ctx:
    def __init__(self, desc: dict, monitors=(), gsc_cap=30000):
        self.desc = desc
        self.bounds = np.array(desc["box"]["bounds"], dtype=np.float64)
        self.lo = self.bounds[:, 0].copy()
        self.hi = self.bounds[:, 1].copy()
        self.maximize = bool(desc.get("maximize", False))
        self.sign = -1.0 if self.maximize else 1.0
        self.g = make_math(desc["obj"], desc["box"]["bounds"])
        self.log: list = []
        self.prev = None  # the context of the first tree when this one reuses its configuration objects
        self.log_base = 0  # index of the first call-log entry that belongs to this tree (> 0 when a configuration is reused)
        self.monitors = list(monitors)
        self.tree = None
        self.config = None
        self.step = 0
        self.in_step = False
        self.step_start_idx = 0
        self.scope: list = []
        self.attrib: dict = {}
        self.scoped_total = 0
        self.n_gsc = 0
        self.gsc_cap = gsc_cap
        self.first_true = None  # (gsc index, eval index, caller kind, caller deme id)
        self.round_seeds = None
        self.zero_steps = 0
        g = desc.get("gsc", {})
        self.zero_step_cap = {"melimit": g.get("n", 0) + 2, "nononroot": g.get("n", 0) + 8}.get(g.get("k"), 6)
        self._last_progress = -1
        self.step_cap = 120
        self.trace = deque(maxlen=250)
        self.violations: list = []
        self.cov = Counter()
        self.nontrivial: set = set()
        self.aborted = None
        self.warns = Counter()
        self.stacks: list = []  # per level: list of wrapper objects, inside-out (index 0 = FunctionProblem)
        self.result = None
        self._handlers: dict = {}
        for m in self.monitors:
            m.ctx = self

    # -- truth
    def truth(self, genome, level=None) -> float:
        v = self.g(canon(genome))
        sh = self.desc.get("level_shift")
        if sh and level is not None:
            v = v + float(sh[level])  # one objective per level (see build_stack)
        return self.sign * v

    def in_box(self, x) -> bool:
        x = np.asarray(x, dtype=np.float64).reshape(-1)
        return bool(np.all(x >= self.lo) and np.all(x <= self.hi))  # NaN compares false -> outside

    # -- events
    def emit(self, event: str, *args):
        self.trace.append((event, len(self.log), _brief(args)))
        hs = self._handlers.get(event)
        if hs is None:
            hs = [getattr(m, "on_" + event) for m in self.monitors if hasattr(m, "on_" + event)]
            self._handlers[event] = hs
        for h in hs:
            try:
                h(*args)
            except (WatchdogAbort, HarnessError):
                raise
            except Exception as e:  # a bug in a monitor is never a verdict
                raise HarnessError(f"monitor {h.__self__.__class__.__name__}.{h.__name__}: {e!r}\n{traceback.format_exc()}")

    def _on_gsc(self, tree, verdict, caller_name, caller_self):
        self.n_gsc += 1
        if caller_name in ("run", "run_step") and isinstance(caller_self, DemeTree):
            kind, deme = caller_name, None
        elif isinstance(caller_self, AbstractDeme):
            kind, deme = "deme", caller_self
        else:
            kind, deme = "other:" + caller_name, None
        v = bool(verdict)
        if v and self.first_true is None:
            self.first_true = (self.n_gsc, len(self.log), kind, deme.id if deme is not None else None, self.step)
        self.emit("gsc", tree, v, kind, deme)
        if self.n_gsc > self.gsc_cap:
            raise WatchdogAbort("gsc consultation cap")

    def _after_step(self, tree):
        """Watchdog: a tree that spins without evaluating can never finish (eval/precision based GSC) -
        end the run; the monitors have already seen the zero-evaluation steps."""
        progress = len(self.log) + sum(d.n_evaluations for lvl in tree.levels for d in lvl)
        if progress == self._last_progress:
            self.zero_steps += 1
        else:
            self.zero_steps = 0
        self._last_progress = progress
        if self.step >= self.step_cap:
            raise WatchdogAbort("step cap")
        if self.zero_steps >= self.zero_step_cap:
            any_active = any(d.is_active for lvl in tree.levels for d in lvl)
            raise WatchdogAbort("stall:active" if any_active else "idle:no-active-deme")

    def attributed(self, deme_id: str) -> int:
        n = self.attrib.get(deme_id, 0)
        if self.scope and self.scope[-1][1] == deme_id:
            n += len(self.log) - self.scope[-1][2]
        return n

    def unscoped(self) -> int:
        open_n = (len(self.log) - self.scope[-1][2]) if self.scope else 0
        return len(self.log) - self.scoped_total - open_n

    def violation(self, prop: str, key: str, detail: dict):
        """key = mechanism (stable across cases), detail = witness."""
        if sum(1 for v in self.violations if v["key"] == key) >= 3:
            self.cov["violations_suppressed"] += 1
            return
        self.violations.append({"property": prop, "key": key, "detail": _jsonable(detail), "at_eval": len(self.log), "step": self.step})


def _brief(args):
    out = []
    for a in args:
        if isinstance(a, AbstractDeme):
            out.append(f"deme:{a.id}")
        elif isinstance(a, DemeTree):
            out.append("tree")
        elif isinstance(a, (bool, int, float, str)) or a is None:
            out.append(a)
        elif isinstance(a, dict):
            out.append(f"dict[{len(a)}]")
        else:
            out.append(type(a).__name__)
    return out


def _jsonable(o, depth=0):
    if depth > 6:
        return str(o)
    if isinstance(o, dict):
        return {str(k): _jsonable(v, depth + 1) for k, v in o.items()}
    if isinstance(o, (list, tuple, set)):
        return [_jsonable(v, depth + 1) for v in list(o)[:60]]
    if isinstance(o, np.ndarray):
        return [_jsonable(v, depth + 1) for v in o.tolist()[:60]]
    if isinstance(o, (np.floating, float)):
        f = float(o)
        return f if np.isfinite(f) else repr(f)
    if isinstance(o, (np.integer, int)):
        return int(o)
    if isinstance(o, (str, bool)) or o is None:
        return o
    return str(o)


# ----------------------------------------------------------------------------------------------------
# configuration builder

EA_CLASSES = {
    "sea": _sea.SEA,
    "sea_cx": _sea.SEAWithCrossover,
    "ga": _sea.GAStyleSEA,
    "sea_adapt": _sea.SEAWithAdaptiveMutation,
    "mwea": _sea.MWEA,
}


def build_stack(ctx: Ctx, tag: int, stack: list):
    g_ = ctx.g
    sh = ctx.desc.get("level_shift")
    if sh and tag >= 0 and float(sh[tag]) != 0.0:
        # one objective per level (a coarser / shifted model on the upper levels, as the documentation suggests): g + a constant
        g_ = (lambda x, _g=ctx.g, _s=float(sh[tag]): _g(x) + _s)
    rec = make_recorder(ctx.log, tag, g_, ctx.sign)
    form = ctx.desc.get("objective_form", "closure")
    if form == "lambda":
        fun = lambda x, *a, **k: rec(x, *a, **k)  # noqa: E731
        fun.log, fun.tag = rec.log, rec.tag
    elif form == "callable":
        fun = userdefs.CallableObjective(rec)
    elif form == "plain":
        fun = userdefs.PlainObjective(ctx.log, tag, ctx.desc["obj"], ctx.desc["box"]["bounds"], ctx.sign, float(sh[tag]) if sh and tag >= 0 else 0.0)
    else:
        fun = rec
    fp = FunctionProblem(fun, ctx.bounds.copy(), ctx.maximize, use_cache=bool(ctx.desc.get("use_cache")))
    objs = [fp]
    p = fp
    opt = ctx.sign * g_min(ctx.desc["obj"], ctx.desc["box"]["bounds"])
    for s in stack:
        if s == "count":
            p = EvalCountingProblem(p)
        elif s == "stats":
            p = StatsGatheringProblem(p)
        elif s.startswith("cutoff:"):
            p = EvalCutoffProblem(p, int(s.split(":")[1]))
        elif s.startswith("prec:"):
            p = PrecisionCutoffProblem(p, opt, float(s.split(":")[1]))
        else:
            raise ValueError(s)
        objs.append(p)
    return p, objs


def build_lsc(d: dict):
    k = d["k"]
    if k == "dontstop":
        return DontStop()
    if k == "dontrun":
        return DontRun()
    if k == "melimit":
        return MetaepochLimit(d["n"])
    if k == "steady":
        return FitnessSteadiness(d["dev"], d["n"])
    if k == "children":
        return AllChildrenStopped()
    if k == "user":
        return userdefs.PseudoRandomStop(d["salt"], d["num"], d["den"])
    raise ValueError(k)


def build_level(lv: dict, problem):
    e = lv["engine"]
    lsc = build_lsc(lv["lsc"])
    if e in EA_CLASSES or e in ("custom_ea", "custom_ea2"):
        kw = {}
        for k in ("mutation_std", "p_mutation", "k_elites", "p_crossover", "mutation_std_step", "election_group_size"):
            if k in lv:
                kw[k] = lv[k]
        if lv.get("mutation_std_array") and "mutation_std" in kw:
            # a per-dimension mutation width handed over as an array (accepted wherever a scalar is: it is only broadcast)
            kw["mutation_std"] = np.full(lv["mutation_std_array"], float(kw["mutation_std"]))
        return {"custom_ea": userdefs.TaggedEAConfig, "custom_ea2": userdefs.TaggedEAConfig2}.get(e, EALevelConfig)(
            ea_class=EA_CLASSES.get(e, _sea.SEA),
            pop_size=lv["pop"],
            problem=problem,
            lsc=lsc,
            generations=lv["gens"],
            sample_std_dev=lv["sample_std"],
            **kw,
        )
    if e in ("de", "de_dither"):
        return DELevelConfig(
            pop_size=lv["pop"],
            problem=problem,
            lsc=lsc,
            generations=lv["gens"],
            sample_std_dev=lv["sample_std"],
            dither=(e == "de_dither"),
            scaling=lv["scaling"],
            crossover=lv["crossover"],
        )
    if e == "shade":
        return SHADELevelConfig(
            pop_size=lv["pop"],
            problem=problem,
            lsc=lsc,
            generations=lv["gens"],
            memory_size=lv["memory"],
            sample_std_dev=lv["sample_std"],
        )
    if e == "cma":
        return CMALevelConfig(problem=problem, lsc=lsc, generations=lv["gens"], sigma0=lv["sigma0"])
    if e == "cma_warm":
        return CMALevelConfig(problem=problem, lsc=lsc, generations=lv["gens"], sigma0=None)
    if e == "cma_stds":
        return CMALevelConfig(problem=problem, lsc=lsc, generations=lv["gens"], sigma0=lv.get("sigma0"), set_stds=True)
    mk = {"method": lv["method"]} if "method" in lv else {}
    if e == "local":
        return LocalOptimizationConfig(problem=problem, lsc=lsc, **mk)
    if e == "local_maxiter":
        return LocalOptimizationConfig(problem=problem, lsc=lsc, maxiter=lv["maxiter"], **mk)
    if e == "lhs":
        return LHSLevelConfig(problem=problem, lsc=lsc, pop_size=lv["pop"])
    if e == "sobol":
        return SobolLevelConfig(problem=problem, lsc=lsc, pop_size=lv["pop"])
    if e == "custom":
        return userdefs.RandomSearchConfig(problem=problem, lsc=lsc, pop_size=lv["pop"])
    raise ValueError(e)


def _ord(o):
    return np.inf if o == "inf" else o


def build_sprout(s: dict):
    k = s["k"]
    if k == "simple":
        return get_simple_sprout(s["far"], s["ll"])
    if k == "nbc":
        return get_NBC_sprout(s["gdf"], s["trunc"], s["fdf"], s["ll"])
    g = s["gen"]
    if g["k"] == "best":
        gen = _sg.BestPerDeme()
    elif g["k"] == "nbc":
        gen = _sg.NBC_Generator(g["df"], g["trunc"])
    else:
        gen = _sg.NBCGeneratorWithLocalMethod(g["df"], g["trunc"])
    dfs = []
    for f in s["dfilters"]:
        if f["k"] == "userpure":
            dfs.append(userdefs.PureCopyFilter())
            continue
        if f["k"] == "userreorder":
            dfs.append(userdefs.BestParentsFirstFilter())
            continue
        if f["k"] == "far":
            dfs.append(_sf.FarEnough(f["d"], _ord(f["ord"])))
        elif f["k"] == "nbcfar":
            dfs.append(_sf.NBC_FarEnough(f["f"], _ord(f["ord"]), f["active"]))
        else:
            dfs.append(_sf.DemeLimit(f["n"]))
    tfs = []
    for f in s["tfilters"]:
        if f["k"] == "userpure":
            tfs.append(userdefs.PureCopyFilter())
        else:
            tfs.append(_sf.LevelLimit(f["n"]) if f["k"] == "levellimit" else _sf.SkipSameSprout())
    return SproutMechanism(gen, dfs, tfs)


def build_gsc(d: dict, ctx: Ctx):
    k = d["k"]
    if k == "melimit":
        return MetaepochLimit(d["n"])
    if k == "dontrun":
        return DontRun()
    if k == "evals":
        return SingularProblemEvalLimitReached(d["n"])
    if k == "fevals":
        w = d.get("w", "equal")
        if d.get("w_spelling") == "str" and w in ("equal", "root"):
            pass  # the plain string, as the docstring spells the strategies
        elif w == "equal":
            w = WeightingStrategy.EQUAL
        elif w == "root":
            w = WeightingStrategy.ROOT
        if isinstance(w, list) and d.get("w_form") == "tuple":
            w = tuple(w)
        elif isinstance(w, list) and d.get("w_form") == "array":
            w = np.array(w, dtype=float)
        return FitnessEvalLimitReached(d["n"], w) if "w" in d else FitnessEvalLimitReached(d["n"])
    if k == "precision":
        for o in ctx.stacks[0]:
            if isinstance(o, PrecisionCutoffProblem):
                return SingularProblemPrecisionReached(o)
        raise ValueError("precision gsc without precision wrapper")
    if k == "rootstopped":
        return RootStopped()
    if k == "allstopped":
        return AllStopped()
    if k == "nononroot":
        return NoActiveNonrootDemes(d["n"])
    raise ValueError(k)


def build_config(desc: dict, ctx: Ctx) -> TreeConfig:
    levels = []
    ctx.stacks = []
    shared_problem = None
    for li, lv in enumerate(desc["levels"]):
        if desc.get("shared"):
            if shared_problem is None:
                shared_problem, objs = build_stack(ctx, -1, lv["stack"])
                ctx._shared_objs = objs
            problem, objs = shared_problem, ctx._shared_objs
        else:
            problem, objs = build_stack(ctx, li, lv["stack"])
        ctx.stacks.append(objs)
        levels.append(build_level(lv, problem))
    gsc = build_gsc(desc["gsc"], ctx)
    sprout = build_sprout(desc["sprout"])
    options = dict(desc.get("options", {}))
    if "log_level" in options:
        from pyhms.logging_ import LoggingLevel

        options["log_level"] = LoggingLevel(options["log_level"])
    kw = {}
    if any(lv["engine"] in ("custom", "custom_ea", "custom_ea2") for lv in desc["levels"]):
        # registration order on purpose: the base class of custom_ea2's config is registered before it
        kw["config_class_to_deme_class"] = {
            userdefs.RandomSearchConfig: userdefs.RandomSearchDeme,
            userdefs.TaggedEAConfig: userdefs.TaggedEADeme,
            userdefs.TaggedEAConfig2: userdefs.TaggedEADeme2,
        }
    if desc.get("override_builtin_ea"):
        from pyhms.config import EALevelConfig as _EAC

        kw.setdefault("config_class_to_deme_class", {})[_EAC] = userdefs.OverridingEADeme
    if not options and not desc.get("explicit_empty_options"):
        return TreeConfig(levels, gsc, sprout, **kw)  # options left to the library's default
    return TreeConfig(levels, gsc, sprout, options=options, **kw)


# ----------------------------------------------------------------------------------------------------
# the instrumented run


def scramble_rng(seed: int):
    random.seed(seed)
    np.random.seed(seed % (2**32))


def _someone_elses_config():
    """What another part of a program may have done before: a TreeConfig built with the default options / default class mapping, whose
    `options` and `config_class_to_deme_class` were then adjusted in place (hibernation on, a seed, a deme class of their own for
    EALevelConfig).  Returns a function that undoes whatever of this reached the library's shared default objects."""
    from pyhms import config as _cfgmod
    from pyhms.config import EALevelConfig as _EAC
    from pyhms.stop_conditions import DontStop as _DS

    before_opts = dict(_cfgmod.DEFAULT_OPTIONS)
    lv = _EAC(ea_class=_sea.SEA, generations=1, problem=FunctionProblem(lambda x: 0.0, np.array([[0.0, 1.0], [0.0, 1.0]]), False), pop_size=4, lsc=_DS())
    other = TreeConfig([lv], MetaepochLimit(1), get_simple_sprout(1.0))
    other.options["hibernation"] = True
    other.options["random_seed"] = 12345
    other.config_class_to_deme_class[_EAC] = userdefs.OverridingEADeme
    shared_map = other.config_class_to_deme_class

    def undo():
        _cfgmod.DEFAULT_OPTIONS.clear()
        _cfgmod.DEFAULT_OPTIONS.update(before_opts)
        # (only has an effect where the mapping object is the library's shared default)
        probe = TreeConfig([lv], MetaepochLimit(1), get_simple_sprout(1.0))
        if probe.config_class_to_deme_class is shared_map or _EAC in probe.config_class_to_deme_class:
            probe.config_class_to_deme_class.pop(_EAC, None)

    return undo


def run_case(desc: dict, monitors=(), gsc_cap=30000, run=True) -> Ctx:
    """Execute one tree descriptor under the taps.  Exceptions raised by pyhms end the run as 'aborted'
    (reported, never a verdict); HarnessError propagates."""
    if desc.get("after_someone_elses_config"):
        undo = _someone_elses_config()
        try:
            d2 = dict(desc)
            d2.pop("after_someone_elses_config")
            ctx = run_case(d2, monitors, gsc_cap=gsc_cap, run=run)
            ctx.cov["runs_after_another_default_built_config_was_adjusted_in_place"] += 1
            return ctx
        finally:
            undo()
    ctx = Ctx(desc, monitors, gsc_cap=gsc_cap)
    scramble_rng(desc.get("np_seed", 0))
    with warnings.catch_warnings(record=True) as wlist:
        warnings.simplefilter("always")
        with activate(ctx):
            try:
                if desc.get("kind") == "minimize":
                    _run_minimize(desc, ctx)
                else:
                    cfg = build_config(desc, ctx)
                    if desc.get("entry") == "hms" and "config_class_to_deme_class" not in _cfg_extra(cfg):
                        from pyhms import hms

                        tree = hms(cfg.levels, cfg.gsc, cfg.sprout_mechanism, cfg.options)
                    else:
                        tree = DemeTree(cfg)
                        ctx.emit("tree_ready", tree)
                        if run and desc.get("entry") == "hand":
                            # a run driven by hand through the public run_metaepoch() / run_sprout() (the metaepoch counter is
                            # only advanced by run_step(), so it stays where it is); the harness marks the step boundaries itself
                            for _ in range(int(desc.get("hand_steps", 6))):
                                with activate(None):
                                    stop = bool(tree._gsc(tree))
                                if stop:
                                    break
                                ctx.step += 1
                                ctx.in_step = True
                                ctx.step_start_idx = len(ctx.log)
                                if desc.get("hand_bump"):
                                    tree.metaepoch_count += 1  # the other by-hand idiom (the project's own test_gsc.py advances the counter itself)
                                ctx.emit("step_begin", tree)
                                tree.run_metaepoch()
                                with activate(None):
                                    stop = bool(tree._gsc(tree))
                                if not stop:
                                    tree.run_sprout()
                                ctx.in_step = False
                                ctx.emit("step_end", tree)
                                ctx.cov["hand_driven_metaepochs"] += 1
                        elif run:
                            for _ in range(int(desc.get("steps_before_run", 0))):
                                # a run carried out in pieces: a few explicit steps (as a user loop would do), then run()
                                with activate(None):
                                    stop = bool(tree._gsc(tree))
                                if stop:
                                    break
                                tree.run_step()
                                ctx.cov["explicit_steps_before_run"] += 1
                            tree.run()
                            if desc.get("rerun"):
                                # calling run() again on a finished tree must be a no-op (the GSC still holds)
                                ctx.cov["reruns_of_a_finished_tree"] += 1
                                tree.run()
                    ctx.tree = tree
                if run:
                    ctx.emit("run_end", ctx.tree)
            except WatchdogAbort as e:
                ctx.aborted = ("watchdog", str(e))
                ctx.emit("run_aborted", ctx.tree)
            except HarnessError:
                raise
            except Exception as e:
                ctx.aborted = ("exception", type(e).__name__, str(e)[:300], traceback.format_exc()[-1500:])
                ctx.emit("run_raised", ctx.tree, e)
    for w in wlist:
        ctx.warns[f"{w.category.__name__}:{str(w.message)[:60]}"] += 1
    return ctx


def _cfg_extra(cfg):
    return {"config_class_to_deme_class": 1} if cfg.config_class_to_deme_class else {}


def _run_minimize(desc, ctx):
    from pyhms import minimize

    fun = make_recorder(ctx.log, -1, ctx.g, 1.0)
    ctx.fun = fun
    kw = {}
    for k in ("maxfun", "maxiter", "seed"):
        if desc.get(k) is not None:
            kw[k] = desc[k]
    if "maxfun" in kw:
        kw["maxfun"] = {"np.int64": np.int64, "float": float}.get(desc.get("maxfun_type"), int)(kw["maxfun"])
    bounds = ctx.bounds.copy() if desc.get("bounds_as", "array") == "array" else [tuple(b) for b in desc["box"]["bounds"]]
    if desc.get("first_box"):
        # the same callable object was minimised over a different box before (a user re-using one function)
        fb = np.array(desc["first_box"]["bounds"], dtype=np.float64)
        with activate(None):
            minimize(fun, fb, maxfun=60, seed=1)
        ctx.log_base = len(ctx.log)
        ctx.scoped_total = len(ctx.log)
        ctx.cov["minimize_after_same_callable_on_another_box"] += 1
    ctx.result = minimize(fun, bounds, **kw)


def _guarded(ctx, fn):
    try:
        fn()
    except WatchdogAbort as e:
        ctx.aborted = ("watchdog", str(e))
        ctx.emit("run_aborted", ctx.tree)
    except HarnessError:
        raise
    except Exception as e:
        ctx.aborted = ("exception", type(e).__name__, str(e)[:300], traceback.format_exc()[-1500:])
        ctx.emit("run_raised", ctx.tree, e)


def run_reuse_pair(desc: dict, make_monitors, second_seed_offset=7, same_np_seed=False):
    """Two trees, one after the other in the same process, the second built from the *same* configuration objects
    (level configs with their problem stacks and stop conditions, global stop condition, sprout mechanism) - the
    'repeated runs in a loop' usage.  State that leaks from the first tree into the second through a shared object
    only becomes visible here.  Returns (ctx1, ctx2); both trees are monitored."""
    ctx1 = Ctx(desc, make_monitors())
    scramble_rng(desc.get("np_seed", 0))
    holder = {}
    with warnings.catch_warnings(record=True):
        warnings.simplefilter("always")
        with activate(ctx1):

            def first():
                holder["cfg"] = build_config(desc, ctx1)
                cfg1 = holder["cfg"]
                if desc.get("first_tree_root_only") and len(cfg1.levels) >= 2:
                    # the first tree uses the same stop-condition / mechanism / root-level objects on a *lower* tree (root level only)
                    cfg1 = TreeConfig(cfg1.levels[:1], cfg1.gsc, cfg1.sprout_mechanism, options=dict(desc.get("options", {})), config_class_to_deme_class=cfg1.config_class_to_deme_class)
                    ctx1.cov["first_tree_of_a_reuse_pair_built_from_the_root_level_only"] += 1
                tree = DemeTree(cfg1)
                ctx1.emit("tree_ready", tree)
                tree.run()
                ctx1.emit("run_end", tree)

            _guarded(ctx1, first)
        d2 = dict(desc)
        opts = dict(desc.get("options", {}))
        if opts.get("random_seed") is not None:
            opts["random_seed"] = opts["random_seed"] + second_seed_offset
        d2["options"] = opts
        d2["np_seed"] = desc.get("np_seed", 0) if same_np_seed else (desc.get("np_seed", 0) * 31 + 5) % (2**31 - 1)
        ctx2 = Ctx(d2, make_monitors())
        ctx2.log = ctx1.log
        ctx2.log_base = len(ctx1.log)
        ctx2.scoped_total = len(ctx1.log)
        ctx2.stacks = ctx1.stacks
        ctx2.prev = ctx1
        if "cfg" not in holder or ctx1.aborted:
            ctx2.aborted = ("skipped", "first tree of the pair did not complete")
            return ctx1, ctx2
        cfg = holder["cfg"]
        scramble_rng(d2["np_seed"])
        with activate(ctx2):

            def second():
                cfg2 = TreeConfig(cfg.levels, cfg.gsc, cfg.sprout_mechanism, options=opts, config_class_to_deme_class=cfg.config_class_to_deme_class)
                tree = DemeTree(cfg2)
                ctx2.emit("tree_ready", tree)
                tree.run()
                ctx2.emit("run_end", tree)

            _guarded(ctx2, second)
    return ctx1, ctx2


def run_retarget_pair(desc: dict, make_monitors):
    """The 're-target a used configuration' idiom: a tree is built and run from some level configs; the configs are then
    deep-copied, their `.problem` is re-assigned to a problem over *another box*, and a second tree is built from the
    copies.  Only the second tree is monitored (against the new box).  Returns (ctx1, ctx2)."""
    import copy

    ctx1 = Ctx(desc, [])
    scramble_rng(desc.get("np_seed", 0))
    holder = {}
    with warnings.catch_warnings(record=True):
        warnings.simplefilter("always")
        with activate(ctx1):

            def first():
                holder["cfg"] = build_config(desc, ctx1)
                DemeTree(holder["cfg"]).run()

            _guarded(ctx1, first)
        d2 = dict(desc)
        d2["box"] = desc["second_box"]
        d2["np_seed"] = (desc.get("np_seed", 0) * 17 + 3) % (2**31 - 1)
        ctx2 = Ctx(d2, make_monitors())
        if "cfg" not in holder or ctx1.aborted:
            ctx2.aborted = ("skipped", "first tree of the pair did not complete")
            return ctx1, ctx2
        cfg = holder["cfg"]
        scramble_rng(d2["np_seed"])
        with activate(None):
            levels2 = copy.deepcopy(cfg.levels)
        with activate(ctx2):

            def second():
                ctx2.stacks = []
                shared = None
                for li, lv in enumerate(levels2):
                    if d2.get("shared"):
                        if shared is None:
                            shared = build_stack(ctx2, -1, d2["levels"][li]["stack"])
                        problem, objs = shared
                    else:
                        problem, objs = build_stack(ctx2, li, d2["levels"][li]["stack"])
                    lv.problem = problem  # the re-assignment
                    ctx2.stacks.append(objs)
                cfg2 = TreeConfig(levels2, build_gsc(d2["gsc"], ctx2), build_sprout(d2["sprout"]), options=dict(d2.get("options", {})), config_class_to_deme_class=cfg.config_class_to_deme_class)
                tree = DemeTree(cfg2)
                ctx2.emit("tree_ready", tree)
                tree.run()
                ctx2.emit("run_end", tree)

            _guarded(ctx2, second)
    return ctx1, ctx2
